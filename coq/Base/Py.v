(* The pieces of Python list / dict semantics the modelled code relies on. *)
From Coq Require Import List Bool ZArith Lia.
Import ListNotations.
Open Scope Z_scope.

(* L[i] for a Python list of length len: negative i counts from the end *)
Definition norm_index (len : nat) (i : Z) : option nat :=
  if 0 <=? i then (if i <? Z.of_nat len then Some (Z.to_nat i) else None)
  else (if 0 <=? i + Z.of_nat len then Some (Z.to_nat (i + Z.of_nat len)) else None).

(* list.insert(i, x): i is clamped into [0, len] after the negative adjustment *)
Definition clamp_index (len : nat) (i : Z) : nat :=
  if 0 <=? i then Nat.min (Z.to_nat i) len
  else Z.to_nat (Z.max 0 (i + Z.of_nat len)).

Definition list_insert {A} (i : Z) (x : A) (l : list A) : list A :=
  let n := clamp_index (length l) i in firstn n l ++ x :: skipn n l.

Definition remove_at {A} (n : nat) (l : list A) : list A := firstn n l ++ skipn (S n) l.
Definition replace_at {A} (n : nat) (x : A) (l : list A) : list A :=
  firstn n l ++ x :: skipn (S n) l.

(* position of the first element satisfying p (list.index with == given by p) *)
Fixpoint find_index {A} (p : A -> bool) (l : list A) : option nat :=
  match l with
  | [] => None
  | x :: xs => if p x then Some O else option_map S (find_index p xs)
  end.

(* Python dict as an association list: assignment to an existing key keeps its place *)
Section Dict.
  Context {K V : Type} (keqb : K -> K -> bool).
  Definition dict := list (K * V).
  Fixpoint dget (d : dict) (k : K) : option V :=
    match d with
    | [] => None
    | (k', v) :: r => if keqb k k' then Some v else dget r k
    end.
  Fixpoint dset (d : dict) (k : K) (v : V) : dict :=
    match d with
    | [] => [(k, v)]
    | (k', v') :: r => if keqb k k' then (k', v) :: r else (k', v') :: dset r k v
    end.
  Fixpoint ddel (d : dict) (k : K) : dict :=
    match d with
    | [] => []
    | (k', v') :: r => if keqb k k' then r else (k', v') :: ddel r k
    end.
End Dict.

(* `for n in l: if not keep(n): l.remove(n)` - removing from a list while iterating it by
   position: after a removal the iterator's position advances past the element that slid
   into the vacated slot, so that element is never examined. *)
Fixpoint iter_remove_aux {A} (fuel : nat) (keep : A -> bool) (pos : nat) (l : list A) : list A :=
  match fuel with
  | O => l
  | S f =>
      match nth_error l pos with
      | None => l
      | Some x => if keep x then iter_remove_aux f keep (S pos) l
                  else iter_remove_aux f keep (S pos) (remove_at pos l)
      end
  end.
Definition iter_remove {A} (keep : A -> bool) (l : list A) : list A :=
  iter_remove_aux (S (length l)) keep O l.
