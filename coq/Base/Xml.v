(* XML trees as the models see them.  Strings are atoms (N) interned by the harness; every
   element carries a uid standing for the identity of the ElementTree node. *)
From Coq Require Import List Bool ZArith NArith Lia.
From PC Require Import Base.Atoms.
Import ListNotations.

Inductive aval :=
  | AStr (a : atom)                 (* any other string *)
  | ARef (hash : bool) (a : atom)   (* "#id" (hash = true) or a bare NCName-like token "id" *)
  | AInt (z : Z).                   (* decimal integer *)

Inductive tok := TInt (z : Z) | TNum (k : N) (* index into the per-case numeric table *) | TWord (a : atom).

(* text = None: the element has no text; Some []: whitespace only *)
Inductive xml := El (uid : N) (ns : atom) (tag : atom) (attrs : list (atom * aval))
                    (text : option (list tok)) (kids : list xml).

Definition xuid (x : xml) := let 'El u _ _ _ _ _ := x in u.
Definition xns (x : xml) := let 'El _ n _ _ _ _ := x in n.
Definition xtag (x : xml) := let 'El _ _ t _ _ _ := x in t.
Definition xattrs (x : xml) := let 'El _ _ _ a _ _ := x in a.
Definition xtext (x : xml) := let 'El _ _ _ _ t _ := x in t.
Definition xkids (x : xml) := let 'El _ _ _ _ _ k := x in k.

Definition aval_eqb (a b : aval) : bool :=
  match a, b with
  | AStr x, AStr y => N.eqb x y
  | ARef h x, ARef g y => Bool.eqb h g && N.eqb x y
  | AInt x, AInt y => Z.eqb x y
  | _, _ => false
  end.

Definition tok_eqb (a b : tok) : bool :=
  match a, b with
  | TInt x, TInt y => Z.eqb x y
  | TNum x, TNum y => N.eqb x y
  | TWord x, TWord y => N.eqb x y
  | _, _ => false
  end.

Fixpoint list_eqb {A} (eqb : A -> A -> bool) (l1 l2 : list A) : bool :=
  match l1, l2 with
  | [], [] => true
  | x :: r1, y :: r2 => eqb x y && list_eqb eqb r1 r2
  | _, _ => false
  end.

Definition attr_eqb (a b : atom * aval) := N.eqb (fst a) (fst b) && aval_eqb (snd a) (snd b).

Definition opt_eqb {A} (eqb : A -> A -> bool) (a b : option A) : bool :=
  match a, b with Some x, Some y => eqb x y | None, None => true | _, _ => false end.

(* structural equality ignoring uids (what two independent readings of the same file share) *)
Fixpoint xml_eqb (a b : xml) : bool :=
  let 'El _ n1 t1 a1 x1 k1 := a in
  let 'El _ n2 t2 a2 x2 k2 := b in
  N.eqb n1 n2 && N.eqb t1 t2 && list_eqb attr_eqb a1 a2 && opt_eqb (list_eqb tok_eqb) x1 x2 &&
  (fix go (l1 l2 : list xml) : bool :=
     match l1, l2 with
     | [], [] => true
     | x :: r1, y :: r2 => xml_eqb x y && go r1 r2
     | _, _ => false
     end) k1 k2.

(* element.get(name) *)
Fixpoint attr (name : atom) (l : list (atom * aval)) : option aval :=
  match l with
  | [] => None
  | (k, v) :: r => if N.eqb k name then Some v else attr name r
  end.
Definition xattr (name : atom) (x : xml) := attr name (xattrs x).

(* element.set(name, v): an existing attribute keeps its position *)
Fixpoint set_attr (name : atom) (v : aval) (l : list (atom * aval)) : list (atom * aval) :=
  match l with
  | [] => [(name, v)]
  | (k, w) :: r => if N.eqb k name then (k, v) :: r else (k, w) :: set_attr name v r
  end.

Definition is_tag (ns t : atom) (x : xml) : bool := N.eqb (xns x) ns && N.eqb (xtag x) t.

(* element.find(tag) / findall(tag) over direct children *)
Definition find (ns t : atom) (x : xml) : option xml := List.find (is_tag ns t) (xkids x).
Definition findall (ns t : atom) (x : xml) : list xml := List.filter (is_tag ns t) (xkids x).

(* find('a/b/c') *)
Fixpoint find_path (ns : atom) (path : list atom) (x : xml) : option xml :=
  match path with
  | [] => Some x
  | t :: r => match find ns t x with Some c => find_path ns r c | None => None end
  end.

Definition mem_uid (u : N) (l : list xml) : bool := existsb (fun c => N.eqb (xuid c) u) l.

Fixpoint xml_size (x : xml) : nat :=
  let 'El _ _ _ _ _ k := x in
  S ((fix go (l : list xml) : nat := match l with [] => O | c :: r => xml_size c + go r end) k).

(* induction principle that reaches the children *)
Section XmlInd.
  Variable P : xml -> Prop.
  Hypothesis H : forall u n t a x k, Forall P k -> P (El u n t a x k).
  Fixpoint xml_ind' (x : xml) : P x :=
    match x with
    | El u n t a tx k =>
        H u n t a tx k
          ((fix go (l : list xml) : Forall P l :=
              match l with
              | [] => Forall_nil P
              | c :: r => Forall_cons c (xml_ind' c) (go r)
              end) k)
    end.
End XmlInd.
