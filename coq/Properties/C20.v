(* C20 - documents are isolated from one another.  Statements only; proofs in Proofs/Isolation.v.

   PARTIAL: the theorems hold for every schedule of steps that satisfy the footprint
   discipline (Section hypotheses).  The discipline is measured on the implementation on
   every run (module-level state hashed around every step, object graphs of distinct
   documents identity-disjoint, observations equal to solo runs in fresh processes - the
   projection comparison is evaluated by Check/C20.v); CPython's scheduling of bytecode
   inside a step is not modelled. *)
From Coq Require Import List Arith Bool NArith.
From PC Require Import Base.Outcome Base.Py Base.Libs Gen.Params Model.Errors.
From PC Require Import Model.Isolation Proofs.Isolation Model.IsolationSteps Proofs.IsolationSteps.
Import ListNotations.

Section C20.
  Variables G D O op : Type.
  Variable gstep : op -> nat -> state G D -> state G D * O.

  (* a step of document i leaves the global state and every other document alone, and what it
     does to document i and what it returns depend on the global state and document i only *)
  Hypothesis global_untouched : forall o i s, fst (fst (gstep o i s)) = fst s.
  Hypothesis others_untouched : forall o i s j, j <> i -> snd (fst (gstep o i s)) j = snd s j.
  Hypothesis reads_own_only : forall o i g ds ds', ds i = ds' i ->
    snd (fst (gstep o i (g, ds))) i = snd (fst (gstep o i (g, ds'))) i /\
    snd (gstep o i (g, ds)) = snd (gstep o i (g, ds')).

  (* for EVERY schedule: the final state of document i and its outputs are those of running
     document i's steps alone *)
  Theorem C20_projection : forall i sc s,
    snd (fst (run gstep s sc)) i = snd (fst (run gstep s (project i sc))) i /\
    outputs_of i (snd (run gstep s sc)) = outputs_of i (snd (run gstep s (project i sc))).
  Proof. exact (projection G D O op gstep global_untouched others_untouched reads_own_only). Qed.

  (* hence any two interleavings of the same per-document sequences agree on every document *)
  Theorem C20_any_two_interleavings : forall seqs sc1 sc2 i s,
    interleaving seqs sc1 -> interleaving seqs sc2 ->
    snd (fst (run gstep s sc1)) i = snd (fst (run gstep s sc2)) i /\
    outputs_of i (snd (run gstep s sc1)) = outputs_of i (snd (run gstep s sc2)).
  Proof. exact (any_two_interleavings G D O op gstep global_untouched others_untouched reads_own_only). Qed.

  Theorem C20_global_constant : forall sc s, fst (fst (run gstep s sc)) = fst s.
  Proof. exact (run_global G D O op gstep global_untouched). Qed.
End C20.
Print Assumptions C20_projection.
Print Assumptions C20_any_two_interleavings.
Print Assumptions C20_global_constant.

(* Non-vacuity: three documents (namespaces 141, 150 and 7; one with a failing load) in an
   interleaved schedule; the instance meets the discipline, so the theorem applies, and the
   concrete values are as computed. *)
Definition tsched : sched top :=
  [(0, TLoad 141 [1;2]); (1, TLoad 150 [1]); (0, TEdit 3); (2, TFail 9); (1, TSave); (2, TLoad 7 []);
   (0, TSave); (1, TEdit 1); (2, TSave); (1, TSave)].

Example C20_projection_nonvacuous :
  outputs_of 0 (snd (run tgstep tstate0 tsched)) = [[141]; []; [0;3;1;2]] /\
  outputs_of 1 (snd (run tgstep tstate0 tsched)) = [[150]; [150;1]; []; [150;1;1]] /\
  outputs_of 2 (snd (run tgstep tstate0 tsched)) = [[9]; [7]; [7]] /\
  outputs_of 1 (snd (run tgstep tstate0 tsched)) = outputs_of 1 (snd (run tgstep tstate0 (project 1 tsched))) /\
  fst (fst (run tgstep tstate0 tsched)) = 141.
Proof. vm_compute. repeat split; reflexivity. Qed.

Example C20_instance_meets_premises : forall i sc,
  outputs_of i (snd (run tgstep tstate0 sc)) = outputs_of i (snd (run tgstep tstate0 (project i sc))).
Proof.
  intros i sc. apply (C20_projection nat tdoc (list nat) top tgstep t_global t_others t_own i sc tstate0).
Qed.

(* the discipline is needed: if loading registers the document's namespace globally, what
   document 0 writes depends on whether document 1 was loaded in between *)
Example C20_leak_refutes :
  outputs_of 0 (snd (run tgstep_leaky tstate0 tsched)) <>
  outputs_of 0 (snd (run tgstep_leaky tstate0 (project 0 tsched))).
Proof. vm_compute. discriminate. Qed.

(* ================================================================================================
   CONCRETE steps.  Any step that has the shape  G -> D_i -> D_i * output  (reads the global state
   and its own document, returns its own document) meets the footprint discipline once lifted to the
   whole state: PROVED, so C20_projection holds for such steps without hypotheses.  The concrete
   instance: G = namespace registry + element factory namespace + class defaults; D = ignore mask,
   recorded errors (the C08 family's Model.Errors), tagger namespace, ids; steps = ignoreErrors,
   handleError, setting the tagger, tag look-up, making up a surface id, E(tag), the written
   prefix, reading a class default.  What remains measured: that the Python operations have this
   shape (module-level state constant, nothing shared, observations equal solo runs). *)
Theorem C20_lifted_steps_meet_discipline : forall G D O op (step : op -> G -> D -> D * O),
  (forall o i s, fst (fst (lift step o i s)) = fst s) /\
  (forall o i s j, j <> i -> snd (fst (lift step o i s)) j = snd s j) /\
  (forall o i g ds ds', ds i = ds' i ->
     snd (fst (lift step o i (g, ds))) i = snd (fst (lift step o i (g, ds'))) i /\
     snd (lift step o i (g, ds)) = snd (lift step o i (g, ds'))).
Proof.
  intros. split; [apply lift_global | split; [apply lift_others | apply lift_own]].
Qed.
Print Assumptions C20_lifted_steps_meet_discipline.

(* for every schedule of the concrete steps over any number of documents: document i ends as if
   its operations had run alone, with the same outputs, and the global state is untouched *)
Theorem C20_concrete_projection : forall i (sc : sched cop) (s : state cglobal cdocst),
  snd (fst (run cgstep s sc)) i = snd (fst (run cgstep s (project i sc))) i /\
  outputs_of i (snd (run cgstep s sc)) = outputs_of i (snd (run cgstep s (project i sc))) /\
  fst (fst (run cgstep s sc)) = fst s.
Proof.
  intros i sc s.
  destruct (C20_projection cglobal cdocst cout cop cgstep (lift_global _ _ _ _ dstep) (lift_others _ _ _ _ dstep)
              (lift_own _ _ _ _ dstep) i sc s) as [A B].
  split; [exact A | split; [exact B|]].
  apply (C20_global_constant cglobal cdocst cout cop cgstep (lift_global _ _ _ _ dstep)).
Qed.
Print Assumptions C20_concrete_projection.

(* ... and alone means: its own operations applied one after the other to its own state *)
Theorem C20_concrete_is_solo : forall i (sc : sched cop) g (ds : nat -> cdocst),
  snd (fst (run cgstep (g, ds) sc)) i = fst (solo dstep g (ds i) (map snd (project i sc))) /\
  outputs_of i (snd (run cgstep (g, ds) sc)) = snd (solo dstep g (ds i) (map snd (project i sc))).
Proof.
  intros i sc g ds.
  destruct (C20_concrete_projection i sc (g, ds)) as [A [B _]].
  rewrite A, B. rewrite (project_of_seq cop i sc) at 1 3.
  apply (run_own_is_solo cglobal cdocst cout cop dstep i (map snd (project i sc)) g ds).
Qed.
Print Assumptions C20_concrete_is_solo.

(* masks, recorded errors and made-up ids never leak: after ANY schedule they are exactly what the
   document's own ignoreErrors / handleError / id-making operations produce, in their order *)
Theorem C20_concrete_no_leak : forall i (sc : sched cop) g (ds : nat -> cdocst),
  let d := snd (fst (run cgstep (g, ds) sc)) i in
  let own := map snd (project i sc) in
  dm_mask d = run_ignore (dm_mask (ds i)) (own_ignores own) /\
  dm_errors d = dm_errors (ds i) ++ own_handled own /\
  dm_ids d = dm_ids (ds i) ++ own_made own.
Proof.
  intros i sc g ds d own. unfold d.
  rewrite (proj1 (C20_concrete_is_solo i sc g ds)).
  split; [apply solo_mask | split; [apply solo_errors | apply solo_ids]].
Qed.
Print Assumptions C20_concrete_no_leak.

(* Non-vacuity: three documents - a 1.4.1 one masking broken references, a 1.5 one masking nothing,
   one in another namespace - with interleaved ignoreErrors / handleError / tag / id / prefix steps *)
Definition cg0 : cglobal := CG [(141, 0)]%N 141%N [(7, 0)]%N [1; 2; 3]%N 1000 false.
Definition cd0 : cdocst := CD [] [] 141%N [].
Definition csched : sched cop :=
  [(0, OSetTagger 141%N); (1, OSetTagger 150%N); (0, OIgnore (IAdd [MCls K_DaeBrokenRefError]));
   (1, OHandle DaeBrokenRef); (0, OHandle DaeBrokenRef); (2, OSetTagger 9%N); (0, OHandle DaeMalformed);
   (1, OTag 5%N); (0, OMakeSurface 20%N); (2, OWrittenPrefix); (1, OMakeSurface 20%N); (0, OWrittenPrefix);
   (2, OIgnore IClear); (1, OElement 3%N); (0, OTag 5%N)].

Example C20_concrete_nonvacuous :
  outputs_of 0 (snd (run cgstep (cg0, fun _ => cd0) csched)) =
    [UNone; UNone; URaised None; URaised (Some DaeMalformed); UId 41%N; UPrefix (Some 0%N); UQName 141%N 5%N] /\
  outputs_of 1 (snd (run cgstep (cg0, fun _ => cd0) csched)) =
    [UNone; URaised (Some DaeBrokenRef); UQName 150%N 5%N; UId 41%N; UQName 141%N 3%N] /\
  outputs_of 2 (snd (run cgstep (cg0, fun _ => cd0) csched)) = [UNone; UPrefix None; UNone] /\
  dm_errors (snd (fst (run cgstep (cg0, fun _ => cd0) csched)) 0) = [DaeBrokenRef; DaeMalformed] /\
  dm_errors (snd (fst (run cgstep (cg0, fun _ => cd0) csched)) 1) = [DaeBrokenRef] /\
  dm_mask (snd (fst (run cgstep (cg0, fun _ => cd0) csched)) 1) = [].
Proof. vm_compute. repeat split; reflexivity. Qed.

(* the shape is needed: numbering made-up ids from a module-level counter (seeded change C20-bm3)
   is not a lifted step, and the id document 1 gets depends on document 0 having made one before *)
Example C20_counter_refutes :
  let s0 : state (cglobal * N) cdocst := ((cg0, 1%N), fun _ => cd0) in
  outputs_of 1 (snd (run leaky_counter_step s0 [(0, OMakeSurface 20%N); (1, OMakeSurface 20%N)])) <>
  outputs_of 1 (snd (run leaky_counter_step s0 (project 1 [(0, OMakeSurface 20%N); (1, OMakeSurface 20%N)]))).
Proof. vm_compute. discriminate. Qed.

(* class-level and interpreter-wide settings in G: InputList.semantics, the recursion limit, numpy's
   error mode.  The modelled steps READ them (addInput accepts a semantic or not, a nested load fits
   the recursion limit or not, a degenerate computation yields NaN or raises) and, being lifted
   steps, leave them exactly as they were - after every schedule *)
Theorem C20_concrete_settings_unchanged : forall (sc : sched cop) (s : state cglobal cdocst),
  let g := fst (fst (run cgstep s sc)) in
  g_semantics g = g_semantics (fst s) /\ g_reclimit g = g_reclimit (fst s) /\ g_nperr g = g_nperr (fst s) /\
  g_nsmap g = g_nsmap (fst s) /\ g_factory_ns g = g_factory_ns (fst s) /\ g_defaults g = g_defaults (fst s).
Proof.
  intros sc s g. unfold g. rewrite (proj2 (proj2 (C20_concrete_projection 0 sc s))). repeat split; reflexivity.
Qed.
Print Assumptions C20_concrete_settings_unchanged.

(* what a step answers depends on those settings only through the constant G: the same operation
   of a document gives the same answer wherever it stands in any schedule *)
Theorem C20_concrete_answers_read_constant_G : forall o i g (ds ds' : nat -> cdocst), ds i = ds' i ->
  snd (cgstep o i (g, ds)) = snd (cgstep o i (g, ds')).
Proof. intros o i g ds ds' H. apply (proj2 (lift_own _ _ _ _ dstep o i g ds ds' H)). Qed.
Print Assumptions C20_concrete_answers_read_constant_G.

Example C20_settings_nonvacuous :
  let sc := [(0, OAddInput 2%N); (1, OAddInput 9%N); (0, OLoadNested 390); (1, OLoadNested 600); (2, ODegenerate)] in
  map snd (snd (run cgstep (cg0, fun _ => cd0) sc)) =
    [UAccepted true; UAccepted false; URaised None; URaised (Some PyOther); UValue true] /\
  g_semantics (fst (fst (run cgstep (cg0, fun _ => cd0) sc))) = [1; 2; 3]%N.
Proof. vm_compute. split; reflexivity. Qed.

(* the shape is needed: registering a foreign semantic in the class-level list (seeded change
   C20-em3) is not a lifted step, and whether document 1's addInput is accepted depends on document
   0 having taken an input list before *)
Example C20_semantics_refutes :
  let sc := [(0, OTag 9%N); (1, OAddInput 9%N)] in
  outputs_of 1 (snd (run leaky_semantics_step (cg0, fun _ => cd0) sc)) <>
  outputs_of 1 (snd (run leaky_semantics_step (cg0, fun _ => cd0) (project 1 sc))).
Proof. vm_compute. discriminate. Qed.
