(* C20 - documents are isolated from one another.  Statements only; proofs in Proofs/Isolation.v.

   PARTIAL: the theorems hold for every schedule of steps that satisfy the footprint
   discipline (Section hypotheses).  The discipline is measured on the implementation on
   every run (module-level state hashed around every step, object graphs of distinct
   documents identity-disjoint, observations equal to solo runs in fresh processes - the
   projection comparison is evaluated by Check/C20.v); CPython's scheduling of bytecode
   inside a step is not modelled. *)
From Coq Require Import List Arith Bool.
From PC Require Import Model.Isolation Proofs.Isolation.
Import ListNotations.

Section C20.
  Variables G D O op : Type.
  Variable gstep : op -> nat -> state G D -> state G D * O.

  (* a step of document i leaves the global state and every other document alone, and what it
     does to document i and what it returns depend on the global state and document i only *)
  Hypothesis global_untouched : forall o i s, fst (fst (gstep o i s)) = fst s.
  Hypothesis others_untouched : forall o i s j, j <> i -> snd (fst (gstep o i s)) j = snd s j.
  Hypothesis reads_own_only : forall o i g ds ds', ds i = ds' i ->
    snd (fst (gstep o i (g, ds))) i = snd (fst (gstep o i (g, ds'))) i /\
    snd (gstep o i (g, ds)) = snd (gstep o i (g, ds')).

  (* for EVERY schedule: the final state of document i and its outputs are those of running
     document i's steps alone *)
  Theorem C20_projection : forall i sc s,
    snd (fst (run gstep s sc)) i = snd (fst (run gstep s (project i sc))) i /\
    outputs_of i (snd (run gstep s sc)) = outputs_of i (snd (run gstep s (project i sc))).
  Proof. exact (projection G D O op gstep global_untouched others_untouched reads_own_only). Qed.

  (* hence any two interleavings of the same per-document sequences agree on every document *)
  Theorem C20_any_two_interleavings : forall seqs sc1 sc2 i s,
    interleaving seqs sc1 -> interleaving seqs sc2 ->
    snd (fst (run gstep s sc1)) i = snd (fst (run gstep s sc2)) i /\
    outputs_of i (snd (run gstep s sc1)) = outputs_of i (snd (run gstep s sc2)).
  Proof. exact (any_two_interleavings G D O op gstep global_untouched others_untouched reads_own_only). Qed.

  Theorem C20_global_constant : forall sc s, fst (fst (run gstep s sc)) = fst s.
  Proof. exact (run_global G D O op gstep global_untouched). Qed.
End C20.
Print Assumptions C20_projection.
Print Assumptions C20_any_two_interleavings.
Print Assumptions C20_global_constant.

(* Non-vacuity: three documents (namespaces 141, 150 and 7; one with a failing load) in an
   interleaved schedule; the instance meets the discipline, so the theorem applies, and the
   concrete values are as computed. *)
Definition tsched : sched top :=
  [(0, TLoad 141 [1;2]); (1, TLoad 150 [1]); (0, TEdit 3); (2, TFail 9); (1, TSave); (2, TLoad 7 []);
   (0, TSave); (1, TEdit 1); (2, TSave); (1, TSave)].

Example C20_projection_nonvacuous :
  outputs_of 0 (snd (run tgstep tstate0 tsched)) = [[141]; []; [0;3;1;2]] /\
  outputs_of 1 (snd (run tgstep tstate0 tsched)) = [[150]; [150;1]; []; [150;1;1]] /\
  outputs_of 2 (snd (run tgstep tstate0 tsched)) = [[9]; [7]; [7]] /\
  outputs_of 1 (snd (run tgstep tstate0 tsched)) = outputs_of 1 (snd (run tgstep tstate0 (project 1 tsched))) /\
  fst (fst (run tgstep tstate0 tsched)) = 141.
Proof. vm_compute. repeat split; reflexivity. Qed.

Example C20_instance_meets_premises : forall i sc,
  outputs_of i (snd (run tgstep tstate0 sc)) = outputs_of i (snd (run tgstep tstate0 (project i sc))).
Proof.
  intros i sc. apply (C20_projection nat tdoc (list nat) top tgstep t_global t_others t_own i sc tstate0).
Qed.

(* the discipline is needed: if loading registers the document's namespace globally, what
   document 0 writes depends on whether document 1 was loaded in between *)
Example C20_leak_refutes :
  outputs_of 0 (snd (run tgstep_leaky tstate0 tsched)) <>
  outputs_of 0 (snd (run tgstep_leaky tstate0 (project 0 tsched))).
Proof. vm_compute. discriminate. Qed.
