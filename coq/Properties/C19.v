(* C19 - skin and morph controllers decode the file faithfully.
   Statements only; proofs are in Proofs/Skin.v. *)
From Coq Require Import List Bool Arith ZArith NArith Lia.
From PC Require Import Base.Outcome Base.Py Base.Mat Model.Skin Proofs.Skin.
Close Scope Z_scope.
Import ListNotations.

(* Once the references of a <skin> resolve ([well_referenced]: enough sources, the geometry,
   the JOINT / INV_BIND_MATRIX / WEIGHT inputs and their sources of the right kind), loading it
   is the numeric decoding [decode]. *)
Theorem C19_load_is_decode : forall d kj km kw kwj js ms ws wjs,
  well_referenced d kj km kw kwj js ms ws wjs -> load_skin d = decode d js ms ws wjs.
Proof. exact load_skin_decode. Qed.
Print Assumptions C19_load_is_decode.

(* skin[i] is exactly the i-th group of rows delimited by vcount - for every i, zero-influence
   vertices included - there are as many groups as vcount entries, and the groups use up the
   whole <v> stream *)
Theorem C19_groups : forall d kj km kw kwj js ms ws wjs s,
  well_referenced d kj km kw kwj js ms ws wjs -> load_skin d = Ok s ->
  sv_nindices s = nind_of d /\
  length (sv_groups s) = length (sd_vcount d) /\
  nind_of d * sum_nat (sd_vcount d) = length (sd_v d) /\
  forall i, i < length (sd_vcount d) ->
    nth i (sv_groups s) [] = spec_group (nind_of d) (sd_vcount d) (sd_v d) i.
Proof.
  intros d kj km kw kwj js ms ws wjs s W H. rewrite (load_skin_decode _ _ _ _ _ _ _ _ _ W) in H.
  pose proof (decode_ok _ _ _ _ _ _ H) as K. cbv zeta in K. tauto.
Qed.
Print Assumptions C19_groups.

(* a group is vcount[i] rows of nindices numbers: row k of group i is the slice of <v> starting
   at nindices * (vcount[0] + ... + vcount[i-1] + k) *)
Theorem C19_group_rows : forall nind vcounts v i k,
  0 < nind -> i < length vcounts -> nind * sum_nat vcounts = length v -> k < nth i vcounts 0 ->
  length (spec_group nind vcounts v i) = nth i vcounts 0 /\
  nth k (spec_group nind vcounts v i) [] =
    firstn nind (skipn (nind * (sum_nat (firstn i vcounts) + k)) v).
Proof.
  intros nind vcounts v i k Hn Hi Hl Hk. unfold spec_group.
  assert (S1 : sum_nat (firstn (S i) vcounts) <= sum_nat vcounts).
  { assert (G : forall n (l : list nat), sum_nat (firstn n l) <= sum_nat l).
    { induction n as [|n IHn]; destruct l as [|x l]; simpl; try lia. specialize (IHn l). lia. }
    apply G. }
  rewrite sum_nat_firstn_S in S1 by exact Hi.
  assert (L : length (firstn (nind * nth i vcounts 0) (skipn (nind * sum_nat (firstn i vcounts)) v)) =
              nth i vcounts 0 * nind).
  { rewrite firstn_length, skipn_length. nia. }
  split.
  - apply chunk_length; auto.
  - rewrite chunk_nth by (auto; rewrite L; nia).
    rewrite skipn_firstn_comm. rewrite firstn_firstn. rewrite skipn_add.
    replace (Nat.min nind (nind * nth i vcounts 0 - k * nind)) with nind by nia.
    f_equal. f_equal. lia.
Qed.
Print Assumptions C19_group_rows.

(* joint_index / weight_index are the columns selected by the offsets of the JOINT and WEIGHT
   inputs, and every index of an accepted skin is in range: weight indices in [0, len), joint
   indices in [-1, len) - COLLADA gives the joint index -1 the meaning "the bind shape" *)
Theorem C19_in_range : forall d kj km kw kwj js ms ws wjs s,
  well_referenced d kj km kw kwj js ms ws wjs -> load_skin d = Ok s ->
  sv_joint_index s = map (column (Z.to_nat (vp_oj (pick_vw (sd_vw d))))) (sv_groups s) /\
  sv_weight_index s = map (column (Z.to_nat (vp_ow (pick_vw (sd_vw d))))) (sv_groups s) /\
  (forall x, In x (concat (sv_joint_index s)) -> (-1 <= x < Z.of_nat (src_len wjs))%Z) /\
  (forall x, In x (concat (sv_weight_index s)) -> (0 <= x < Z.of_nat (src_len ws))%Z).
Proof.
  intros d kj km kw kwj js ms ws wjs s W H. rewrite (load_skin_decode _ _ _ _ _ _ _ _ _ W) in H.
  pose proof (decode_ok _ _ _ _ _ _ H) as K. cbv zeta in K. tauto.
Qed.
Print Assumptions C19_in_range.

(* malformed numbers are rejected as DaeMalformedError: joint/matrix count mismatch, a <v>
   stream shorter OR longer than nindices * sum(vcount), a joint or weight index beyond its
   source, a weight index below 0 or a joint index below -1 *)
Theorem C19_rejects : forall d kj km kw kwj js ms ws wjs,
  well_referenced d kj km kw kwj js ms ws wjs ->
  spec_malformed d js ms ws wjs -> load_skin d = Raise DaeMalformed.
Proof.
  intros d kj km kw kwj js ms ws wjs W B. rewrite (load_skin_decode _ _ _ _ _ _ _ _ _ W).
  apply decode_rejects. exact B.
Qed.
Print Assumptions C19_rejects.

(* ... and nothing else is: a skin whose numbers are fine is accepted *)
Theorem C19_accepts : forall d kj km kw kwj js ms ws wjs,
  well_referenced d kj km kw kwj js ms ws wjs ->
  length (bind_of d) = 16 -> src_ncomp ws = 1 -> src_ncomp wjs = 1 ->
  ~ spec_malformed d js ms ws wjs -> exists s, load_skin d = Ok s.
Proof.
  intros d kj km kw kwj js ms ws wjs W B N1 N2 G. rewrite (load_skin_decode _ _ _ _ _ _ _ _ _ W).
  apply decode_accepts; assumption.
Qed.
Print Assumptions C19_accepts.

(* whatever goes wrong in the numeric part is reported as DaeMalformedError *)
Theorem C19_only_malformed : forall d kj km kw kwj js ms ws wjs ex,
  well_referenced d kj km kw kwj js ms ws wjs -> load_skin d = Raise ex -> ex = DaeMalformed.
Proof.
  intros d kj km kw kwj js ms ws wjs ex W H. rewrite (load_skin_decode _ _ _ _ _ _ _ _ _ W) in H.
  eapply decode_raise; eauto.
Qed.
Print Assumptions C19_only_malformed.

(* the JOINT and WEIGHT inputs of <vertex_weights> may come in either order (any two
   neighbouring inputs with different semantics can be exchanged) *)
Theorem C19_offsets_either_order : forall l1 a b l2,
  sem_eqb (fst (fst a)) (fst (fst b)) = false ->
  pick_vw (l1 ++ a :: b :: l2) = pick_vw (l1 ++ b :: a :: l2).
Proof. exact pick_vw_swap. Qed.
Print Assumptions C19_offsets_either_order.

(* joint names are paired with the inverse bind matrices in order (one 16-number block per
   name), and the bind shape matrix is the file's, or the identity when absent *)
Theorem C19_joint_matrices_in_order : forall d kj km kw kwj js ms ws wjs s,
  well_referenced d kj km kw kwj js ms ws wjs -> load_skin d = Ok s ->
  sv_joint_matrices s = combine (names_of js) (chunk 16 (vals_of ms)) /\
  length (names_of js) = length (vals_of ms) / 16 /\ length (vals_of ms) mod 16 = 0 /\
  (forall k, k < length (names_of js) ->
     nth k (sv_joint_matrices s) (0%N, []) =
     (nth k (names_of js) 0%N, firstn 16 (skipn (k * 16) (vals_of ms)))) /\
  sv_bind_shape s = match sd_bind_shape d with None => identity16 | Some l => l end /\
  length (sv_bind_shape s) = 16.
Proof.
  intros d kj km kw kwj js ms ws wjs s W H. rewrite (load_skin_decode _ _ _ _ _ _ _ _ _ W) in H.
  pose proof (decode_ok _ _ _ _ _ _ H) as K. cbv zeta in K.
  destruct K as (K0 & K1 & K2 & _ & _ & _ & _ & _ & _ & _ & _ & K11 & K12).
  repeat split; auto.
  - intros k Hk. rewrite K11.
    assert (D : length (vals_of ms) = 16 * (length (vals_of ms) / 16)).
    { pose proof (Nat.div_mod (length (vals_of ms)) 16). lia. }
    assert (Lc : length (chunk 16 (vals_of ms)) = length (vals_of ms) / 16) by (apply chunk_length; lia).
    rewrite combine_nth by lia. f_equal. apply chunk_nth; lia.
  - rewrite K12. exact K0.
Qed.
Print Assumptions C19_joint_matrices_in_order.

(* BoundSkin: the geometry is bound with path . bind_shape - a point goes through the bind
   shape matrix first, then through the node matrices innermost to outermost *)
Theorem C19_bound_matrix : forall path bind v,
  zmapply (bound_skin_matrix path bind) v = zmapply (zmprod path) (zmapply bind v) /\
  bound_skin_matrix [] bind = bind /\
  forall m, bound_skin_matrix (m :: path) bind = zmmul m (bound_skin_matrix path bind).
Proof.
  intros. split; [apply bound_skin_point|split; [apply bound_skin_nil|intro; apply bound_skin_cons]].
Qed.
Print Assumptions C19_bound_matrix.

(* BoundMorph (Morph.bind under a path of node matrices): it carries the product of the node
   matrices (no bind shape matrix is involved) and the morph itself - base geometry and the
   (target, weight) pairs in the same order, reachable by position; under a further outer node m
   the matrix is m . (matrix under the inner path).  (The code does not bind the base geometry or
   the targets; that is stated here as it is.) *)
Theorem C19_bound_morph : forall (path : list matZ) (m : N * list (N * Z)),
  bm_matrix (bind_morph path m) = zmprod path /\
  bm_base (bind_morph path m) = fst m /\
  bm_pairs (bind_morph path m) = snd m /\
  (forall i, i < length (snd m) -> bound_morph_get (bind_morph path m) (Z.of_nat i) = nth_error (snd m) i) /\
  (forall p, bm_matrix (bind_morph (p :: path) m) = zmmul p (bm_matrix (bind_morph path m))) /\
  (forall v, zmapply (bm_matrix (bind_morph path m)) v = zmapply (bound_skin_matrix path zmid) v).
Proof.
  intros path m. repeat split.
  - intros i H. apply bound_morph_get_nth. exact H.
  - intro v. unfold bind_morph, bound_skin_matrix. simpl. unfold zmmul, zmid.
    rewrite (mmul_id_r _ _ _ _ _ _ _ Zth_mat). reflexivity.
Qed.
Print Assumptions C19_bound_morph.

(* BoundSkin.getJoint / getWeight on an accepted skin: every non-negative joint index (-1 is the
   bind shape, not a joint) and every weight index the skin exposes selects an entry of its source *)
Theorem C19_accessors_total : forall d kj km kw kwj js ms ws wjs s,
  well_referenced d kj km kw kwj js ms ws wjs -> load_skin d = Ok s ->
  (forall x, In x (concat (sv_joint_index s)) -> (0 <= x)%Z -> exists a, get_joint wjs x = Some a) /\
  (forall x, In x (concat (sv_weight_index s)) -> exists row, get_weight ws x = Some row).
Proof.
  intros d kj km kw kwj js ms ws wjs s W H.
  pose proof (wr_wjs_names _ _ _ _ _ _ _ _ _ W) as Hn. pose proof (wr_ws_floats _ _ _ _ _ _ _ _ _ W) as Hf.
  rewrite (load_skin_decode _ _ _ _ _ _ _ _ _ W) in H.
  destruct (decode_ncomp _ _ _ _ _ _ H) as [_ Hc].
  pose proof (decode_ok _ _ _ _ _ _ H) as K. cbv zeta in K.
  destruct K as (_ & _ & _ & _ & _ & _ & _ & _ & _ & K9 & K10 & _).
  split.
  - intros x Hx H0. apply get_joint_total; [exact Hn|]. specialize (K9 _ Hx). lia.
  - intros x Hx. apply get_weight_total; [exact Hf|exact Hc|]. specialize (K10 _ Hx). lia.
Qed.
Print Assumptions C19_accessors_total.

(* a morph: base geometry, and the (target geometry, weight) pairs in order, all targets being
   loaded geometries; mismatched target / weight counts are rejected as DaeMalformedError *)
Theorem C19_morph_pairs_in_order : forall d b l,
  load_morph d = Ok (b, l) ->
  exists targets ncomp vals,
    md_base d = Some b /\ memN b (md_geoms d) = true /\
    morph_inputs (md_scope d) (md_inputs d) None None = Ok (Some (SrcNames true targets), Some (SrcFloats ncomp vals)) /\
    length targets = length vals / ncomp /\
    (0 < ncomp -> length vals = (length vals / ncomp) * ncomp ->
     l = combine targets (first_components ncomp vals) /\ length l = length targets /\
     forall t, In t targets -> memN t (md_geoms d) = true).
Proof.
  intros d b l H. destruct (load_morph_ok _ _ _ H) as (targets & ncomp & vals & H1 & H2 & _ & H4 & H5 & H6).
  exists targets, ncomp, vals.
  split; [exact H1|split; [exact H2|split; [exact H4|split; [exact H5|]]]]. intros Hn Hd.
  assert (L : length targets = length (first_components ncomp vals)).
  { rewrite (first_components_length ncomp vals (length vals / ncomp)); auto. }
  destruct (morph_pairs_ok (md_geoms d) targets (first_components ncomp vals) l L H6) as (-> & Hin).
  split; [reflexivity|split; [rewrite combine_length; lia|exact Hin]].
Qed.
Print Assumptions C19_morph_pairs_in_order.

Theorem C19_morph_rejects_mismatch : forall d b targets ncomp vals,
  md_base d = Some b -> memN b (md_geoms d) = true -> md_method_ok d = true ->
  2 <= length (md_inputs d) ->
  morph_inputs (md_scope d) (md_inputs d) None None = Ok (Some (SrcNames true targets), Some (SrcFloats ncomp vals)) ->
  length targets <> length vals / ncomp ->
  load_morph d = Raise DaeMalformed.
Proof. exact load_morph_mismatch. Qed.
Print Assumptions C19_morph_rejects_mismatch.

(* ---------------------------------------------------------------- non-vacuity *)
Definition ex_scope : scope :=
  [(1%N, SrcNames false [10%N; 11%N]);
   (2%N, SrcFloats 1 (identity16 ++ [2;0;0;5; 0;2;0;6; 0;0;2;7; 0;0;0;1]%Z));
   (3%N, SrcFloats 1 [8; 4; 2]%Z)].
(* WEIGHT before JOINT, offsets reversed, a zero-influence vertex in the middle *)
Definition ex_skin (v : list Z) : skin_desc :=
  mk_skin_desc ex_scope true None [(SInvBind, 2%N); (SJoint, 1%N)]
    [(SWeight, 3%N, 0%Z); (SJoint, 1%N, 1%Z)] [2; 0; 1] v.

Example C19_well_referenced_nonvacuous :
  well_referenced (ex_skin [2;1; 0;0; 1;1]%Z) 1%N 2%N 3%N 1%N
    (SrcNames false [10%N; 11%N])
    (SrcFloats 1 (identity16 ++ [2;0;0;5; 0;2;0;6; 0;0;2;7; 0;0;0;1]%Z))
    (SrcFloats 1 [8; 4; 2]%Z) (SrcNames false [10%N; 11%N]).
Proof. constructor; vm_compute; try reflexivity; lia. Qed.

Example C19_accepted_nonvacuous :
  load_skin (ex_skin [2;1; 0;0; 1;1]%Z) =
  Ok (mk_skin_view 2 [[[2;1]; [0;0]]; []; [[1;1]]]%Z [[1;0]; []; [1]]%Z [[2;0]; []; [1]]%Z
        [(10%N, identity16); (11%N, [2;0;0;5; 0;2;0;6; 0;0;2;7; 0;0;0;1]%Z)] identity16).
Proof. vm_compute. reflexivity. Qed.

Example C19_rejected_nonvacuous :
  load_skin (ex_skin [2;1; 0;0; 1;1; 0;0]%Z) = Raise DaeMalformed /\   (* too long *)
  load_skin (ex_skin [2;1; 0;0; 1]%Z) = Raise DaeMalformed /\          (* too short *)
  load_skin (ex_skin [2;2; 0;0; 1;1]%Z) = Raise DaeMalformed /\        (* joint index 2 of 2 *)
  load_skin (ex_skin [3;1; 0;0; 1;1]%Z) = Raise DaeMalformed /\        (* weight index 3 of 3 *)
  load_skin (ex_skin [-1;1; 0;0; 1;1]%Z) = Raise DaeMalformed /\       (* weight index -1 *)
  load_skin (ex_skin [2;-2; 0;0; 1;1]%Z) = Raise DaeMalformed /\       (* joint index -2 *)
  (exists s, load_skin (ex_skin [2;-1; 0;0; 1;1]%Z) = Ok s).           (* joint index -1: the bind shape *)
Proof. vm_compute. repeat split. eexists; reflexivity. Qed.

Example C19_morph_nonvacuous :
  let d := mk_morph_desc [(1%N, SrcFloats 1 [4; -8; 12]%Z); (2%N, SrcNames true [21%N; 20%N; 21%N])]
                         (Some 20%N) true [(SMorphWeight, 1%N); (SMorphTarget, 2%N)] [20%N; 21%N] in
  load_morph d = Ok (20%N, [(21%N, 4%Z); (20%N, (-8)%Z); (21%N, 12%Z)]).
Proof. vm_compute. reflexivity. Qed.

(* ---------------------------------------------------------------- the XML navigation *)
From PC Require Import Base.Atoms Base.Xml Model.SkinXml Proofs.SkinXml.

(* Skin.load on a well-formed <skin> element (every child the loader looks up - in the document
   namespace - is present, references start with '#', numbers are numbers, offsets are integers,
   the controller has an id) is the numeric decoding of the element's declarative reading *)
Theorem C19_xml_skin_load_is_read : forall ns nums geoms sc node ctrl,
  wf_skin ns nums geoms sc node ctrl ->
  load_skin_x ns nums geoms sc node ctrl = load_skin (read_skin ns nums sc node).
Proof. exact load_skin_x_read. Qed.
Print Assumptions C19_xml_skin_load_is_read.

(* without any well-formedness assumption: a <skin> that loads IS the decoding of its reading
   (so every theorem above about load_skin applies to what was loaded from the element) *)
Theorem C19_xml_skin_loaded_is_read : forall ns nums geoms sc node ctrl v,
  load_skin_x ns nums geoms sc node ctrl = Ok v -> load_skin (read_skin ns nums sc node) = Ok v.
Proof. exact load_skin_x_ok. Qed.
Print Assumptions C19_xml_skin_loaded_is_read.

Theorem C19_xml_morph_load_is_read : forall ns geoms sc node ctrl,
  wf_morph ns geoms sc node -> xattr a_id ctrl <> None ->
  load_morph_x ns geoms sc node ctrl = load_morph (read_morph ns geoms sc node).
Proof. exact load_morph_x_read. Qed.
Print Assumptions C19_xml_morph_load_is_read.

(* Controller.load: <skin> is looked up first, then <morph>; the scope is made of the <source>
   children of that element *)
Theorem C19_xml_controller_load : forall ns nums geoms ctrl node sc,
  (find ns a_skin ctrl = Some node ->
   omapM (load_source ns nums) (controller_sources ns a_skin ctrl) = Ok sc ->
   wf_skin ns nums geoms sc node ctrl ->
   load_controller ns nums geoms ctrl =
   match load_skin (read_skin ns nums sc node) with Ok v => Ok (LSkin v) | Raise e => Raise e end) /\
  (find ns a_skin ctrl = None -> find ns a_morph ctrl = Some node ->
   omapM (load_source ns nums) (controller_sources ns a_morph ctrl) = Ok sc ->
   wf_morph ns geoms sc node -> xattr a_id ctrl <> None ->
   load_controller ns nums geoms ctrl =
   match load_morph (read_morph ns geoms sc node) with Ok (b, l) => Ok (LMorph b l) | Raise e => Raise e end).
Proof. intros. split; [apply load_controller_skin|apply load_controller_morph]. Qed.
Print Assumptions C19_xml_controller_load.

(* non-vacuity: a small <controller> element (sources in another order than they are used, a
   decoy <v> in a foreign namespace, JOINT after WEIGHT) is well-formed and loads *)
Definition ex_ns : atom := a_ns141.
Definition ex_src (uid : N) (id : atom) (arr : atom) (toks : list tok) (pname : atom) : xml :=
  El uid ex_ns a_source [(a_id, AStr id)] None
     [El (uid + 1) ex_ns arr [] (Some toks) [];
      El (uid + 2) ex_ns a_technique_common [] None
         [El (uid + 3) ex_ns a_accessor [] None [El (uid + 4) ex_ns a_param [(a_name, AStr pname)] None []]]].
Definition ex_input (uid : N) (s id : atom) (off : option Z) : xml :=
  El uid ex_ns a_input ((a_semantic, AStr s) :: (a_source, ARef true id) ::
                        match off with Some z => [(a_offset, AInt z)] | None => [] end) None [].
Definition ex_skin_node : xml :=
  El 10 ex_ns a_skin [(a_source, ARef true 2000%N)] None
     [ex_src 20 1003%N a_float_array [TNum 0; TInt 1] a_WEIGHT;
      ex_src 30 1001%N a_Name_array [TWord 1010%N; TWord 1011%N] a_JOINT;
      ex_src 40 1002%N a_float_array (map TInt (identity16 ++ identity16)) a_TRANSFORM;
      El 50 ex_ns a_joints [] None [ex_input 51 a_INV_BIND_MATRIX 1002%N None; ex_input 52 a_JOINT 1001%N None];
      El 60 ex_ns a_vertex_weights [] None
         [El 61 1999%N a_v [] (Some [TInt 9; TInt 9]) [];
          ex_input 62 a_WEIGHT 1003%N (Some 0%Z); ex_input 63 a_JOINT 1001%N (Some 1%Z);
          El 64 ex_ns a_vcount [] (Some [TInt 2; TInt 0; TInt 1]) [];
          El 65 ex_ns a_v [] (Some [TInt 1; TInt 1; TInt 0; TInt (-1); TInt 1; TInt 0]) []]].
Definition ex_ctrl : xml := El 1 ex_ns a_controller [(a_id, AStr 1500%N)] None [ex_skin_node].

Example C19_xml_nonvacuous :
  exists sc,
    omapM (load_source ex_ns [4%Z]) (controller_sources ex_ns a_skin ex_ctrl) = Ok sc /\
    wf_skin ex_ns [4%Z] [2000%N] sc ex_skin_node ex_ctrl /\
    load_controller ex_ns [4%Z] [2000%N] ex_ctrl =
    Ok (LSkin (mk_skin_view 2 [[[1;1]; [0;-1]]; []; [[1;0]]]%Z [[1;-1]; []; [0]]%Z [[1;0]; []; [1]]%Z
                 [(1010%N, identity16); (1011%N, identity16)] identity16)).
Proof.
  eexists. split; [vm_compute; reflexivity|]. split; [|vm_compute; reflexivity].
  constructor.
  - vm_compute. lia.
  - exists 2000%N. split; reflexivity.
  - intros b H. vm_compute in H. discriminate.
  - split; [vm_compute; lia|]. repeat constructor; eexists; reflexivity.
  - do 3 eexists. repeat split; try (vm_compute; reflexivity).
    + repeat constructor; vm_compute; discriminate.
    + repeat constructor; eexists; split; try reflexivity; lia.
    + repeat constructor; eexists; reflexivity.
    + repeat constructor; eexists; reflexivity.
  - vm_compute. discriminate.
Qed.

Example C19_bound_morph_nonvacuous :
  let m := (20%N, [(21%N, 4%Z); (20%N, (-8)%Z)]) in
  let p := zmat_of_list [2;0;0;1; 0;2;0;0; 0;0;2;0; 0;0;0;1]%Z in
  mat_to_list (bm_matrix (bind_morph [p; p] m)) = [4;0;0;3; 0;4;0;0; 0;0;4;0; 0;0;0;1]%Z /\
  bound_morph_get (bind_morph [p; p] m) 1%Z = Some (20%N, (-8)%Z) /\
  bound_morph_get (bind_morph [p; p] m) (-1)%Z = Some (20%N, (-8)%Z) /\
  bound_morph_get (bind_morph [p; p] m) 2%Z = None.
Proof. vm_compute. repeat split. Qed.

Example C19_accessors_nonvacuous :
  get_joint (SrcNames false [10%N; 11%N]) 1%Z = Some 11%N /\
  get_weight (SrcFloats 1 [8; 4; 2]%Z) 2%Z = Some [2%Z] /\
  get_joint (SrcNames false [10%N; 11%N]) 2%Z = None.
Proof. vm_compute. repeat split. Qed.
