(* C08 - load failures are DaeErrors, ignorable, and contained.
   Statements only; proofs are in Proofs/Errors.v (and Proofs/Refs.v for locality).
   [dcls_base] - which class derives from which - is GENERATED from collada/common.py. *)
From Coq Require Import List Bool.
From PC Require Import Base.Outcome Base.Libs Gen.Params Model.Errors Proofs.Errors Model.Refs Proofs.Refs.
Import ListNotations.

(* isinstance semantics of the ignore mask: the exact class masks; the base class DaeError masks
   every class of the family; a different class, a user-defined subclass or an unrelated
   built-in does not; a non-DaeError is never masked; ignoreErrors(None) after any history of
   ignoreErrors calls leaves the empty mask, under which handleError re-raises everything *)
Theorem C08_mask_semantics :
  (forall e c, class_of e = Some c -> masked [MCls c] e = true) /\
  (forall e c, class_of e = Some c -> masked [MCls K_DaeError] e = true) /\
  (forall e c k, class_of e = Some c -> c <> K_DaeError -> k <> K_DaeError -> c <> k ->
                 masked [MCls k] e = false) /\
  (forall e p, masked [MUserSub p] e = false /\ masked [MBuiltin] e = false) /\
  (forall mk e, class_of e = None -> masked mk e = false) /\
  (forall mk ms e, masked (mk ++ ms) e = masked mk e || masked ms e) /\
  (forall mk ops e errs,
      run_ignore mk (ops ++ [IClear]) = [] /\
      handle (run_ignore mk (ops ++ [IClear])) errs e = (errs ++ [e], Some e)).
Proof.
  split; [exact masked_exact|]. split; [exact masked_base|]. split; [exact masked_unrelated|].
  split; [intros e p; split; [apply masked_usersub|apply masked_builtin]|].
  split; [exact masked_not_dae|]. split; [exact masked_app|]. exact clear_restores.
Qed.
Print Assumptions C08_mask_semantics.

(* the library loop completes iff every raised error is masked, and then the library holds
   exactly the successfully loaded objects, in item order, and errors holds exactly the raised
   (converted) errors, in item order *)
Theorem C08_lib_combinator :
  forall (Item Val : Type) (load_item : Item -> outcome Val) (mk : mask) items vals errs,
    catchable_all load_item items ->
    forall vals' errs',
      load_lib load_item mk items vals errs = (vals', errs', None) <->
      (forallb (masked mk) (failures load_item items) = true /\
       vals' = vals ++ successes load_item items /\ errs' = errs ++ failures load_item items).
Proof. intros Item Val. exact (@load_lib_complete Item Val). Qed.
Print Assumptions C08_lib_combinator.

(* a class that is not listed still aborts the load: at the first item whose error is not
   masked, with everything before it loaded and recorded and that error recorded last *)
Theorem C08_unlisted_aborts :
  forall (Item Val : Type) (load_item : Item -> outcome Val) (mk : mask) items vals errs vals' errs' x,
    load_lib load_item mk items vals errs = (vals', errs', Some x) ->
    exists pre it post e,
      items = pre ++ it :: post /\ load_item it = Raise e /\
      forallb (masked mk) (failures load_item pre) = true /\
      vals' = vals ++ successes load_item pre /\
      ((catch e = Some x /\ masked mk x = false /\ errs' = errs ++ failures load_item pre ++ [x]) \/
       (catch e = None /\ x = e /\ errs' = errs ++ failures load_item pre)).
Proof. intros Item Val. exact (@load_lib_abort Item Val). Qed.
Print Assumptions C08_unlisted_aborts.

(* containment at the loop: an item that loads to the same value with and without the damage
   is present in both results; nothing is invented - at most one object per item, each one
   produced by an item of the document *)
Theorem C08_containment :
  forall (Item Val : Type) (f f' : Item -> outcome Val) (mk : mask) items items',
    (forall vals errs vals' errs',
        catchable_all f items -> catchable_all f' items' ->
        load_lib f mk items [] [] = (vals, errs, None) ->
        load_lib f' mk items' [] [] = (vals', errs', None) ->
        forall it v, In it items -> In it items' -> f it = Ok v -> f' it = Ok v ->
                     In v vals /\ In v vals') /\
    (forall vals' errs' ab,
        load_lib f' mk items' [] [] = (vals', errs', ab) ->
        length vals' <= length items' /\
        forall v, In v vals' -> exists it, In it items' /\ f' it = Ok v).
Proof.
  intros Item Val f f' mk items items'. split.
  - intros vals errs vals' errs'. apply containment_item.
  - apply load_lib_nothing_invented.
Qed.
Print Assumptions C08_containment.

(* ... and when does an item load to the same value?  In the reference model (Model/Refs.v) an
   object's loaded value is a function of its own content and of what its references resolve
   to: if the damage touches neither, the object is loaded exactly as in the undamaged document *)
Theorem C08_containment_local :
  forall o o' it, (forall r, In r (it_refs it) -> resolve o r = resolve o' r) -> load_item o it = load_item o' it.
Proof. exact load_item_local. Qed.
Print Assumptions C08_containment_local.

(* only DaeErrors escape and only DaeErrors are recorded, as long as the loaders raise
   DaeErrors and the built-in parsing exceptions *)
Theorem C08_only_dae :
  forall (Item Val : Type) (load_item : Item -> outcome Val) (mk : mask) items,
    catchable_all load_item items ->
    (forall vals errs vals' errs' x,
        load_lib load_item mk items vals errs = (vals', errs', Some x) -> is_dae x = true) /\
    Forall (fun e => is_dae e = true) (failures load_item items).
Proof.
  intros Item Val load_item mk items Hc. split.
  - intros vals errs vals' errs' x. apply load_lib_only_dae. exact Hc.
  - apply failures_dae. exact Hc.
Qed.
Print Assumptions C08_only_dae.

(* the built-in parsing exceptions are reported as DaeMalformedError; DaeErrors pass unchanged *)
Theorem C08_raw_is_malformed :
  (forall e, is_rawload e = true -> catch e = Some DaeMalformed) /\
  (forall e, is_dae e = true -> catch e = Some e) /\
  (forall e e', catch e = Some e' -> is_dae e' = true).
Proof. split; [exact catch_raw|]. split; [exact catch_dae|exact catch_is_dae]. Qed.
Print Assumptions C08_raw_is_malformed.

(* the per-child loop of Node.load *)
Theorem C08_children_combinator :
  forall (Child Val : Type) (load_child : Child -> cres Val) (mk : mask) cs vals errs vals' errs',
    (forall c e, In c cs -> load_child c = CRaise e -> catch e <> None) ->
    load_children load_child mk cs vals errs = (vals', errs', SDone) <->
    ((forall c, In c cs -> load_child c <> CDefer) /\
     forallb (masked mk) (child_failures load_child cs) = true /\
     vals' = vals ++ child_successes load_child cs /\
     errs' = errs ++ child_failures load_child cs).
Proof. intros Child Val. exact (@load_children_done Child Val). Qed.
Print Assumptions C08_children_combinator.

(* malformed XML: DaeMalformedError whatever the mask (expat is the Section variable [parse]) *)
Theorem C08_malformed_xml :
  forall (Bytes Xml Doc : Type) (parse : Bytes -> option Xml) (load_xml : Xml -> outcome Doc) b,
    parse b = None -> load_bytes parse load_xml b = Raise DaeMalformed.
Proof. intros Bytes Xml Doc parse load_xml b H. unfold load_bytes. rewrite H. reflexivity. Qed.
Print Assumptions C08_malformed_xml.

(* Non-vacuity: five items, two of which fail (a broken reference, a raw ValueError). *)
Definition ex_item (n : nat) : outcome nat :=
  match n with 1 => Raise DaeBrokenRef | 3 => Raise PyValueError | _ => Ok n end.

Example C08_combinator_nonvacuous :
  catchable_all ex_item [0; 1; 2; 3; 4] /\
  load_lib ex_item [MCls K_DaeError] [0; 1; 2; 3; 4] [] [] = ([0; 2; 4], [DaeBrokenRef; DaeMalformed], None) /\
  load_lib ex_item [MCls K_DaeBrokenRefError] [0; 1; 2; 3; 4] [] [] = ([0; 2], [DaeBrokenRef; DaeMalformed], Some DaeMalformed) /\
  load_lib ex_item [MCls K_DaeMalformedError; MBuiltin] [0; 1; 2; 3; 4] [] [] = ([0], [DaeBrokenRef], Some DaeBrokenRef) /\
  load_lib ex_item (run_ignore [] [IAdd [MCls K_DaeError]; IClear]) [0; 1; 2; 3; 4] [] [] = ([0], [DaeBrokenRef], Some DaeBrokenRef).
Proof.
  split.
  - intros it e Hin H.
    destruct Hin as [<-|[<-|[<-|[<-|[<-|[]]]]]]; simpl in H; try discriminate; inversion H; subst;
      vm_compute; discriminate.
  - vm_compute. repeat split; reflexivity.
Qed.
