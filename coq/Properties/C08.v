(* C08 - load failures are DaeErrors, ignorable, and contained.
   Statements only; proofs are in Proofs/Errors.v (and Proofs/Refs.v for locality).
   [dcls_base] - which class derives from which - is GENERATED from collada/common.py. *)
From Coq Require Import List Bool ZArith NArith.
From PC Require Import Base.Atoms Base.Xml Base.Outcome Base.Libs Gen.Params Model.Errors Proofs.Errors Model.Refs Proofs.Refs
     Model.LoadSites Proofs.LoadSites Model.Skin Model.SkinXml Proofs.LoadSitesCtrl.
Import ListNotations.

(* isinstance semantics of the ignore mask: the exact class masks; the base class DaeError masks
   every class of the family; a different class, a user-defined subclass or an unrelated
   built-in does not; a non-DaeError is never masked; ignoreErrors(None) after any history of
   ignoreErrors calls leaves the empty mask, under which handleError re-raises everything *)
Theorem C08_mask_semantics :
  (forall e c, class_of e = Some c -> masked [MCls c] e = true) /\
  (forall e c, class_of e = Some c -> masked [MCls K_DaeError] e = true) /\
  (forall e c k, class_of e = Some c -> c <> K_DaeError -> k <> K_DaeError -> c <> k ->
                 masked [MCls k] e = false) /\
  (forall e p, masked [MUserSub p] e = false /\ masked [MBuiltin] e = false) /\
  (forall mk e, class_of e = None -> masked mk e = false) /\
  (forall mk ms e, masked (mk ++ ms) e = masked mk e || masked ms e) /\
  (forall mk ops e errs,
      run_ignore mk (ops ++ [IClear]) = [] /\
      handle (run_ignore mk (ops ++ [IClear])) errs e = (errs ++ [e], Some e)).
Proof.
  split; [exact masked_exact|]. split; [exact masked_base|]. split; [exact masked_unrelated|].
  split; [intros e p; split; [apply masked_usersub|apply masked_builtin]|].
  split; [exact masked_not_dae|]. split; [exact masked_app|]. exact clear_restores.
Qed.
Print Assumptions C08_mask_semantics.

(* the library loop completes iff every raised error is masked, and then the library holds
   exactly the successfully loaded objects, in item order, and errors holds exactly the raised
   (converted) errors, in item order *)
Theorem C08_lib_combinator :
  forall (Item Val : Type) (load_item : Item -> outcome Val) (mk : mask) items vals errs,
    catchable_all load_item items ->
    forall vals' errs',
      load_lib load_item mk items vals errs = (vals', errs', None) <->
      (forallb (masked mk) (failures load_item items) = true /\
       vals' = vals ++ successes load_item items /\ errs' = errs ++ failures load_item items).
Proof. intros Item Val. exact (@load_lib_complete Item Val). Qed.
Print Assumptions C08_lib_combinator.

(* a class that is not listed still aborts the load: at the first item whose error is not
   masked, with everything before it loaded and recorded and that error recorded last *)
Theorem C08_unlisted_aborts :
  forall (Item Val : Type) (load_item : Item -> outcome Val) (mk : mask) items vals errs vals' errs' x,
    load_lib load_item mk items vals errs = (vals', errs', Some x) ->
    exists pre it post e,
      items = pre ++ it :: post /\ load_item it = Raise e /\
      forallb (masked mk) (failures load_item pre) = true /\
      vals' = vals ++ successes load_item pre /\
      ((catch e = Some x /\ masked mk x = false /\ errs' = errs ++ failures load_item pre ++ [x]) \/
       (catch e = None /\ x = e /\ errs' = errs ++ failures load_item pre)).
Proof. intros Item Val. exact (@load_lib_abort Item Val). Qed.
Print Assumptions C08_unlisted_aborts.

(* containment at the loop: an item that loads to the same value with and without the damage
   is present in both results; nothing is invented - at most one object per item, each one
   produced by an item of the document *)
Theorem C08_containment :
  forall (Item Val : Type) (f f' : Item -> outcome Val) (mk : mask) items items',
    (forall vals errs vals' errs',
        catchable_all f items -> catchable_all f' items' ->
        load_lib f mk items [] [] = (vals, errs, None) ->
        load_lib f' mk items' [] [] = (vals', errs', None) ->
        forall it v, In it items -> In it items' -> f it = Ok v -> f' it = Ok v ->
                     In v vals /\ In v vals') /\
    (forall vals' errs' ab,
        load_lib f' mk items' [] [] = (vals', errs', ab) ->
        length vals' <= length items' /\
        forall v, In v vals' -> exists it, In it items' /\ f' it = Ok v).
Proof.
  intros Item Val f f' mk items items'. split.
  - intros vals errs vals' errs'. apply containment_item.
  - apply load_lib_nothing_invented.
Qed.
Print Assumptions C08_containment.

(* ... and when does an item load to the same value?  In the reference model (Model/Refs.v) an
   object's loaded value is a function of its own content and of what its references resolve
   to: if the damage touches neither, the object is loaded exactly as in the undamaged document *)
Theorem C08_containment_local :
  forall o o' it, (forall r, In r (it_refs it) -> resolve o r = resolve o' r) -> load_item o it = load_item o' it.
Proof. exact load_item_local. Qed.
Print Assumptions C08_containment_local.

(* only DaeErrors escape and only DaeErrors are recorded, as long as the loaders raise
   DaeErrors and the built-in parsing exceptions *)
Theorem C08_only_dae :
  forall (Item Val : Type) (load_item : Item -> outcome Val) (mk : mask) items,
    catchable_all load_item items ->
    (forall vals errs vals' errs' x,
        load_lib load_item mk items vals errs = (vals', errs', Some x) -> is_dae x = true) /\
    Forall (fun e => is_dae e = true) (failures load_item items).
Proof.
  intros Item Val load_item mk items Hc. split.
  - intros vals errs vals' errs' x. apply load_lib_only_dae. exact Hc.
  - apply failures_dae. exact Hc.
Qed.
Print Assumptions C08_only_dae.

(* the built-in parsing exceptions are reported as DaeMalformedError; DaeErrors pass unchanged *)
Theorem C08_raw_is_malformed :
  (forall e, is_rawload e = true -> catch e = Some DaeMalformed) /\
  (forall e, is_dae e = true -> catch e = Some e) /\
  (forall e e', catch e = Some e' -> is_dae e' = true).
Proof. split; [exact catch_raw|]. split; [exact catch_dae|exact catch_is_dae]. Qed.
Print Assumptions C08_raw_is_malformed.

(* the per-child loop of Node.load *)
Theorem C08_children_combinator :
  forall (Child Val : Type) (load_child : Child -> cres Val) (mk : mask) cs vals errs vals' errs',
    (forall c e, In c cs -> load_child c = CRaise e -> catch e <> None) ->
    load_children load_child mk cs vals errs = (vals', errs', SDone) <->
    ((forall c, In c cs -> load_child c <> CDefer) /\
     forallb (masked mk) (child_failures load_child cs) = true /\
     vals' = vals ++ child_successes load_child cs /\
     errs' = errs ++ child_failures load_child cs).
Proof. intros Child Val. exact (@load_children_done Child Val). Qed.
Print Assumptions C08_children_combinator.

(* malformed XML: DaeMalformedError whatever the mask (expat is the Section variable [parse]) *)
Theorem C08_malformed_xml :
  forall (Bytes Xml Doc : Type) (parse : Bytes -> option Xml) (load_xml : Xml -> outcome Doc) b,
    parse b = None -> load_bytes parse load_xml b = Raise DaeMalformed.
Proof. intros Bytes Xml Doc parse load_xml b H. unfold load_bytes. rewrite H. reflexivity. Qed.
Print Assumptions C08_malformed_xml.

(* Non-vacuity: five items, two of which fail (a broken reference, a raw ValueError). *)
Definition ex_item (n : nat) : outcome nat :=
  match n with 1 => Raise DaeBrokenRef | 3 => Raise PyValueError | _ => Ok n end.

Example C08_combinator_nonvacuous :
  catchable_all ex_item [0; 1; 2; 3; 4] /\
  load_lib ex_item [MCls K_DaeError] [0; 1; 2; 3; 4] [] [] = ([0; 2; 4], [DaeBrokenRef; DaeMalformed], None) /\
  load_lib ex_item [MCls K_DaeBrokenRefError] [0; 1; 2; 3; 4] [] [] = ([0; 2], [DaeBrokenRef; DaeMalformed], Some DaeMalformed) /\
  load_lib ex_item [MCls K_DaeMalformedError; MBuiltin] [0; 1; 2; 3; 4] [] [] = ([0], [DaeBrokenRef], Some DaeBrokenRef) /\
  load_lib ex_item (run_ignore [] [IAdd [MCls K_DaeError]; IClear]) [0; 1; 2; 3; 4] [] [] = ([0], [DaeBrokenRef], Some DaeBrokenRef).
Proof.
  split.
  - intros it e Hin H.
    destruct Hin as [<-|[<-|[<-|[<-|[<-|[]]]]]]; simpl in H; try discriminate; inversion H; subst;
      vm_compute; discriminate.
  - vm_compute. repeat split; reflexivity.
Qed.

(* ---- the loader sites (Model/LoadSites.v): transforms, material -> effect, lights, cameras, float
   sources, with numeric text read through the numpy / float() oracles.  For EVERY element tree,
   namespace and set of effect ids: loading the object inside its boundary gives Ok or a DaeError;
   the boundary table and the tuple of converted built-in classes are GENERATED from the source. *)
Theorem C08_only_dae_sites :
  forall ns effects k x,
    match guarded ns effects k x with Ok _ => True | Raise e => is_dae e = true end.
Proof. exact guarded_only_dae. Qed.
Print Assumptions C08_only_dae_sites.

(* a built-in (raw) class can only arise inside a boundary that converts it: whenever a modelled
   loader raises a non-DaeError, that class is one of common.DaeRawLoadErrors, the boundary the
   loader runs in has the DaeRawLoadErrors clause, and what reaches handleError is DaeMalformedError *)
Theorem C08_raw_only_inside_boundary :
  forall ns effects k x e,
    site_load ns effects k x = Raise e -> is_dae e = false ->
    is_rawload e = true /\ has_raw_clause (boundary_of k) = true /\
    guarded ns effects k x = Raise DaeMalformed.
Proof. exact raw_only_inside_boundary. Qed.
Print Assumptions C08_raw_only_inside_boundary.

(* the documented classes of the reference sites and of the numeric oracles *)
Theorem C08_site_classes :
  (forall ns effects x e u, find ns a_instance_effect x = Some e -> xattr a_url e = Some (ARef true u) ->
     existsb (N.eqb u) effects = false -> load_material ns effects x = Raise DaeBrokenRef) /\
  (forall ns effects x e u, find ns a_instance_effect x = Some e -> xattr a_url e = Some (ARef false u) ->
     load_material ns effects x = Raise DaeMalformed) /\
  (forall ns effects x, find ns a_instance_effect x = None -> load_material ns effects x = Raise DaeIncomplete) /\
  (forall ts, forallb good_tok ts = false -> parse_floats (Some ts) = Raise PyValueError) /\
  parse_floats None = Raise PyTypeError /\ parse_float None = Raise PyTypeError /\
  parse_color None = Raise PyAttributeError.
Proof.
  repeat split.
  - intros ns effects x e u H1 H2 H3. unfold load_material. rewrite H1, H2, H3. reflexivity.
  - intros ns effects x e u H1 H2. unfold load_material. rewrite H1, H2. reflexivity.
  - intros ns effects x H. unfold load_material. rewrite H. reflexivity.
  - intros ts H. simpl. rewrite H. reflexivity.
Qed.
Print Assumptions C08_site_classes.

(* Non-vacuity: a <translate> with a bad token is a raw ValueError that the node-child boundary
   turns into DaeMalformed; a point light whose <zfar> lost its text is a raw TypeError; a perspective
   camera without <znear> is a raw AttributeError; a material whose url names no effect is DaeBrokenRef *)
Example C08_sites_nonvacuous :
  let ns := a_ns141 in
  let tr := El 1%N ns a_translate [] (Some [TInt 1%Z; TWord 1000%N; TInt 3%Z]) [] in
  let zf := El 5%N ns a_zfar [] None [] in
  let col := El 4%N ns a_color [] (Some [TInt 1%Z; TInt 1%Z; TInt 1%Z]) [] in
  let lig := El 2%N ns a_light [] None [El 3%N ns a_technique_common [] None [El 6%N ns a_point [] None [col; zf]]] in
  let per := El 9%N ns a_perspective [] None [El 10%N ns a_xfov [] (Some [TInt 45%Z]) []; El 11%N ns a_zfar [] (Some [TInt 9%Z]) []] in
  let cam := El 7%N ns a_camera [] None [El 8%N ns a_optics [] None [El 12%N ns a_technique_common [] None [per]]] in
  let mat := El 13%N ns a_material [] None [El 14%N ns a_instance_effect [(a_url, ARef true 2000%N)] None []] in
  site_load ns [] KTransform tr = Raise PyValueError /\ guarded ns [] KTransform tr = Raise DaeMalformed /\
  site_load ns [] KLight lig = Raise PyTypeError /\ guarded ns [] KLight lig = Raise DaeMalformed /\
  site_load ns [] KCamera cam = Raise PyAttributeError /\ guarded ns [] KCamera cam = Raise DaeMalformed /\
  site_load ns [2001%N] KMaterial mat = Raise DaeBrokenRef /\ site_load ns [2000%N] KMaterial mat = Ok tt.
Proof. vm_compute. repeat split; reflexivity. Qed.

(* ---- the sites that were covered by the fault oracle only: effect shading parameters
   (_loadShadingParam), primitive inputs and the <triangles> index stream (_getInputs,
   _getInputsFromList, TriangleSet.load), and controllers (over the C19 family's model). *)
Theorem C08_only_dae_more_sites :
  (forall ns x, match guarded_shading_param ns x with Ok _ => True | Raise e => is_dae e = true end) /\
  (forall ns sc x, match guarded_triangles ns sc x with Ok _ => True | Raise e => is_dae e = true end).
Proof.
  split.
  - intros ns x. apply guard_in_only_dae; [exact effects_boundary|apply good_shading_param].
  - intros ns sc x. apply guard_in_only_dae; [exact geometry_boundary|apply good_triangles].
Qed.
Print Assumptions C08_only_dae_more_sites.

Theorem C08_raw_only_inside_boundary_more :
  (forall ns x e, load_shading_param ns x = Raise e -> is_dae e = false ->
     is_rawload e = true /\ has_raw_clause (BLib LEffects) = true /\ guarded_shading_param ns x = Raise DaeMalformed) /\
  (forall ns sc x e, load_triangles ns sc x = Raise e -> is_dae e = false ->
     is_rawload e = true /\ has_raw_clause (BLib LGeometry) = true /\ guarded_triangles ns sc x = Raise DaeMalformed).
Proof.
  split.
  - intros ns x e H D.
    destruct (guard_in_raw (BLib LEffects) (load_shading_param ns x) e effects_boundary (good_shading_param ns x) H D) as [A B].
    split; [exact A|]. split; [exact effects_boundary|exact B].
  - intros ns sc x e H D.
    destruct (guard_in_raw (BLib LGeometry) (load_triangles ns sc x) e geometry_boundary (good_triangles ns sc x) H D) as [A B].
    split; [exact A|]. split; [exact geometry_boundary|exact B].
Qed.
Print Assumptions C08_raw_only_inside_boundary_more.

(* which class the named raw sites raise: int(None), max() of nothing, None[1:], '#' + None.id,
   the reshape; float(None) and the `'...' + id` of the float branch; 'Missing sampler ' + None *)
Theorem C08_more_site_classes :
  (forall i r, xattr a_offset i = None -> parse_offsets (i :: r) = Raise PyTypeError) /\
  (forall i r a, xattr a_offset i = Some (AStr a) -> parse_offsets (i :: r) = Raise DaeMalformed) /\
  (forall sc i, xattr a_source i = None -> check_input sc i = Raise PyTypeError) /\
  (forall sc i s, xattr a_source i = Some (ARef true s) -> sget sc s = None -> check_input sc i = Raise DaeBrokenRef) /\
  (forall sc i s, xattr a_source i = Some (ARef false s) -> check_input sc i = Raise DaeMalformed) /\
  (forall sc i s srcs, xattr a_source i = Some (ARef true s) -> sget sc s = Some (SVertices srcs) -> In None srcs ->
     check_input sc i = Raise PyAttributeError) /\
  (forall ns sc x p ps, findall ns a_p x = p :: ps -> findall ns a_input x = [] ->
     load_triangles ns sc x = Raise PyValueError) /\
  (forall ns x v r, xkids x = v :: r -> is_tag ns a_color v = false -> is_tag ns a_float v = true ->
     (forall u, parse_float (xtext v) <> Ok u) -> load_shading_param ns x = Raise PyTypeError).
Proof.
  split; [intros i r H; simpl; rewrite H; reflexivity|].
  split; [intros i r a H; simpl; rewrite H; reflexivity|].
  split; [intros sc i H; unfold check_input; rewrite H; reflexivity|].
  split; [intros sc i s H1 H2; unfold check_input; rewrite H1, H2; reflexivity|].
  split; [intros sc i s H; unfold check_input; rewrite H; reflexivity|].
  split.
  { intros sc i s srcs H1 H2 H3. unfold check_input. rewrite H1, H2.
    assert (E : forallb (fun o : option atom => match o with Some _ => true | None => false end) srcs = false).
    { apply Bool.not_true_is_false. intro F. rewrite forallb_forall in F. specialize (F None H3). discriminate. }
    rewrite E. reflexivity. }
  split.
  { intros ns sc x p ps H1 H2. unfold load_triangles. rewrite H1, H2. reflexivity. }
  intros ns x v r H1 H2 H3 H4. unfold load_shading_param. rewrite H1, H2, H3.
  destruct (parse_float (xtext v)) as [u|e]; [exfalso; exact (H4 u eq_refl)|reflexivity].
Qed.
Print Assumptions C08_more_site_classes.

(* controllers: the C19 family's model of Controller.load / Skin.load / Morph.load (read-only) already
   writes DaeMalformed where the Python raises a built-in class; its boundary has the converting
   clause (GENERATED table), and for EVERY controller element the model returns Ok, a DaeError
   class or its own "input not covered" marker PyOther *)
Theorem C08_controller_boundary :
  has_raw_clause (BLib LControllers) = true /\
  forall ns nums geoms ctrl,
    match load_controller ns nums geoms ctrl with
    | Ok _ => True
    | Raise e => is_dae e = true \/ e = PyOther
    end.
Proof.
  split; [exact controllers_boundary|].
  intros ns nums geoms ctrl. pose proof (load_controller_ok ns nums geoms ctrl) as H.
  destruct (load_controller ns nums geoms ctrl); [exact I|exact H].
Qed.
Print Assumptions C08_controller_boundary.

Example C08_more_sites_nonvacuous :
  let ns := a_ns141 in
  let p := El 2%N ns a_p [] (Some [TInt 0%Z; TInt 1%Z; TInt 2%Z]) [] in
  let inp := El 3%N ns a_input [(a_semantic, AStr a_VERTEX); (a_source, ARef true 500%N); (a_offset, AInt 0%Z)] None [] in
  let inp_nooff := El 3%N ns a_input [(a_semantic, AStr a_VERTEX); (a_source, ARef true 500%N)] None [] in
  let fl := El 6%N ns a_shininess [] None [El 7%N ns a_float [] (Some [TWord 1000%N]) []] in
  load_triangles ns [(500%N, SSource)] (El 1%N ns a_triangles [] None [inp; p]) = Ok tt /\
  load_triangles ns [(500%N, SSource)] (El 1%N ns a_triangles [] None [p]) = Raise PyValueError /\
  guarded_triangles ns [(500%N, SSource)] (El 1%N ns a_triangles [] None [p]) = Raise DaeMalformed /\
  load_triangles ns [(500%N, SSource)] (El 1%N ns a_triangles [] None [inp_nooff; p]) = Raise PyTypeError /\
  load_triangles ns [] (El 1%N ns a_triangles [] None [inp; p]) = Raise DaeBrokenRef /\
  load_shading_param ns fl = Raise PyTypeError /\ guarded_shading_param ns fl = Raise DaeMalformed.
Proof. vm_compute. repeat split; reflexivity. Qed.
