(* C02 - in-place edits are persisted exactly by save.
   Statements only; proofs are in Proofs/Sync.v and Proofs/Emit.v. *)
From Coq Require Import List Bool ZArith NArith.
From PC Require Import Base.Py Base.Atoms Base.Xml Model.Sync Proofs.Sync Model.Emit Proofs.Emit Model.SaveOnto Proofs.SaveOnto.
Import ListNotations.

(* The key lemma: for ANY old child list and ANY object list (distinct identities), the
   reconciliation leaves exactly the objects' nodes, in the model's order. *)
Theorem C02_sync_exact : forall old want, NoDup old -> NoDup want -> py_sync old want = want.
Proof. exact sync_exact. Qed.
Print Assumptions C02_sync_exact.

Theorem C02_sync_meets_spec : forall old want, NoDup old -> NoDup want ->
  sync_spec (fun _ => true) old want (py_sync old want).
Proof. exact sync_meets_spec. Qed.
Print Assumptions C02_sync_meets_spec.

(* instances *)
Theorem C02_library_save_exact : forall old objs, NoDup old -> NoDup objs -> library_sync old objs = objs.
Proof. exact sync_exact. Qed.
Print Assumptions C02_library_save_exact.

Theorem C02_node_save_exact : forall old ts cs, NoDup old -> NoDup (ts ++ cs) -> node_sync old ts cs = ts ++ cs.
Proof. intros. apply sync_exact; assumption. Qed.
Print Assumptions C02_node_save_exact.

Theorem C02_scene_save_exact : forall old nodes, NoDup old -> NoDup nodes -> scene_sync old nodes = nodes.
Proof. exact sync_exact. Qed.
Print Assumptions C02_scene_save_exact.

Theorem C02_bind_material_exact : forall old mats, NoDup old -> NoDup mats -> bind_material_sync old mats = mats.
Proof. exact sync_exact. Qed.
Print Assumptions C02_bind_material_exact.

(* the mesh: sources, <vertices>, primitives in model order; the <extra> children it had are the
   only unmanaged ones and keep identity and relative order *)
Theorem C02_geometry_save_exact : forall is_extra old sources v prims,
  NoDup old -> NoDup (sources ++ v :: prims) ->
  (forall x, In x (sources ++ v :: prims) -> is_extra x = false) ->
  let res := mesh_sync is_extra old sources v prims in
  res = sources ++ v :: prims ++ filter is_extra old /\
  sync_spec (fun c => negb (is_extra c)) old (sources ++ v :: prims) res.
Proof. exact mesh_sync_meets_spec. Qed.
Print Assumptions C02_geometry_save_exact.

(* Effect.save (newparam children of profile_COMMON) and MaterialNode.save (bind_vertex_input
   children): the managed children are exactly the model's, in order, and the unmanaged ones
   (<image>, <technique>, <extra>; <bind>, <extra>) keep identity and relative order *)
Theorem C02_effect_params_exact : forall is_param tec old params,
  (forall x, In x params -> is_param x = true) ->
  sync_spec is_param old params (profile_sync is_param tec old params).
Proof. exact profile_sync_meets_spec. Qed.
Print Assumptions C02_effect_params_exact.

Theorem C02_instance_material_exact : forall is_bvi is_bind old inputs,
  (forall x, In x inputs -> is_bvi x = true) ->
  sync_spec is_bvi old inputs (instance_material_sync is_bvi is_bind old inputs).
Proof. exact instance_material_sync_meets_spec. Qed.
Print Assumptions C02_instance_material_exact.

(* a node's matrix: over ANY monoid of matrices, the transform children of the saved element, in
   document order, are the current transform list, hence give the matrix that list implies *)
Theorem C02_node_matrix_follows_transforms :
  forall (M : Type) (mul : M -> M -> M) (one : M) (mat : N -> M) old ts cs,
  NoDup old -> NoDup (ts ++ cs) ->
  firstn (length ts) (node_sync old ts cs) = ts /\
  node_matrix M mul one mat (firstn (length ts) (node_sync old ts cs)) = node_matrix M mul one mat ts.
Proof. exact node_matrix_follows_transforms. Qed.
Print Assumptions C02_node_matrix_follows_transforms.

(* whole trees: whatever the XML elements contain before the save (heap: any duplicate-free
   child list for every element identity), saving a model gives the emission of that model *)
Theorem C02_save_onto_is_emit : forall heap, (forall u, NoDup (heap u)) ->
  forall o, wf_obj o -> save_onto heap o = emit_skel o.
Proof. exact save_onto_is_emit. Qed.
Print Assumptions C02_save_onto_is_emit.

(* any edit history (each edit replaces the model by any well-formed model: that is what adding,
   removing, replacing, reordering and moving objects at any level amount to) with saves
   interleaved anywhere: the invariant holds throughout and after every save the tree is the
   emission of the current model *)
Theorem C02_history_exact : forall hs st, st_inv st -> Forall wf_step hs ->
  st_inv (run_history st hs) /\
  forall hs', hs = hs' ++ [Save] -> st_saved (run_history st hs).
Proof. exact history_exact. Qed.
Print Assumptions C02_history_exact.

(* every url / target written for a scene-graph element is the current id of the referenced
   object; after a rename the references to the renamed object carry the new id *)
Theorem C02_refs_follow_rename : forall ids u new_id n,
  node_refs (resolve (rename_id ids u new_id) n) =
  map (fun v => if N.eqb v u then new_id else ids v) (mnode_targets n).
Proof. exact refs_follow_rename. Qed.
Print Assumptions C02_refs_follow_rename.

Theorem C02_refs_in_file : forall ids n, exists n', read_node (emit_node (resolve ids n)) = Some n' /\
  node_refs n' = map ids (mnode_targets n).
Proof. exact refs_in_file. Qed.
Print Assumptions C02_refs_in_file.

(* ---- save onto an element that already exists, attribute level (Model/SaveOnto.v): whatever
   the old element holds, an independent reader finds the model's content afterwards ---- *)

(* Material.save onto ANY old <material> that has an <instance_effect> child (other attributes and
   children may be there and stay) *)
Theorem C02_save_onto_read_material : forall old m ie,
  find ns a_instance_effect old = Some ie ->
  read_material (save_material_onto old m) = Some m.
Proof. exact material_save_onto_read. Qed.
Print Assumptions C02_save_onto_read_material.

(* the five instance kinds: after save the element's url is the target's current id, the material
   bindings are whatever the element holds (they are reconciled by C02_bind_material_exact) *)
Theorem C02_save_onto_read_instance : forall u n t a tx kids k ms url,
  tag_ikind t = Some k -> N.eqb t a_node = false ->
  read_mats (El u n t a tx kids) = Some ms ->
  read_node (save_instance_onto (El u n t a tx kids) url) = Some (Inst k url ms).
Proof. exact instance_save_onto_read. Qed.
Print Assumptions C02_save_onto_read_instance.

(* Node.save, attributes: id / name are the model's when it has them, children and tag untouched *)
Theorem C02_save_onto_node_attrs : forall old id name,
  xattr a_id (save_node_attrs_onto old id name) = match id with Some v => Some v | None => xattr a_id old end /\
  xattr a_name (save_node_attrs_onto old id name) = match name with Some v => Some v | None => xattr a_name old end /\
  xkids (save_node_attrs_onto old id name) = xkids old /\ xtag (save_node_attrs_onto old id name) = xtag old.
Proof. exact node_attrs_save_onto. Qed.
Print Assumptions C02_save_onto_node_attrs.

(* Camera.save re-creates its element: the old one does not matter *)
Theorem C02_save_onto_read_camera : forall old c, wf_camera c -> read_camera (save_camera_onto old c) = Some c.
Proof. exact camera_save_onto_read. Qed.
Print Assumptions C02_save_onto_read_camera.

(* Light.save (point / spot), the optional parameters: for ANY old children of the <point>/<spot>
   element in which each parameter tag occurs at most once, after the sequence of
   _correctValInNode calls an independent reader finds exactly the model's value for every
   parameter of the kind (absent iff None) and every other child reads as before.
   PARTIAL with respect to the full C02_save_onto_read for lights: the composition through
   light/technique_common/<kind> (found by path), the colour text and the id/name attributes are
   not composed into one statement about read_light here (each is an instance of set_attr /
   set_text covered by the lemmas above and the direct oracle). *)
Theorem C02_save_onto_read_light_params_partial : forall ps names done kids, NoDup names ->
  (forall n, In n names -> (length (filter (is_tag ns n) kids) <= 1)%nat) ->
  (forall n, In n names -> read_opt n (apply_vals done names ps kids) = assoc_val n ps) /\
  (forall t', ~ In t' names -> read_opt t' (apply_vals done names ps kids) = read_opt t' kids).
Proof. exact apply_vals_read. Qed.
Print Assumptions C02_save_onto_read_light_params_partial.

(* non-vacuity: a spot light's parameters saved onto an old <spot> that holds a colour, a stale
   linear attenuation and an old falloff angle: the stale one goes, the new ones arrive, the colour stays *)
Local Open Scope N_scope.
Example C02_light_params_nonvacuous :
  let old := [el a_color [] (Some [TInt (1)%Z]) []; el a_linear_attenuation [] (Some [TNum 7]) [];
              el a_falloff_angle [] (Some [TNum 8]) []] in
  let names := [a_constant_attenuation; a_linear_attenuation; a_quadratic_attenuation; a_falloff_angle; a_falloff_exponent] in
  let ps := [(a_constant_attenuation, [TInt (0)%Z]); (a_falloff_angle, [TNum 9]); (a_falloff_exponent, [TNum 3])] in
  let res := apply_vals [] names ps old in
  map (fun n => read_opt n res) (a_color :: names) =
  [Some [TInt (1)%Z]; Some [TInt (0)%Z]; None; None; Some [TNum 9]; Some [TNum 3]].
Proof. vm_compute. reflexivity. Qed.

Example C02_material_onto_nonvacuous :
  read_material (save_material_onto
     (El 5 ns a_material [(a_sid, AStr 77); (a_id, AStr 1001); (a_name, AStr 1002)] None
         [el a_extra [] None []; El 6 ns a_instance_effect [(a_url, ARef true 1003)] None []])
     {| m_id := AStr 2001; m_name := AStr 2002; m_effect := 2003 |})
  = Some {| m_id := AStr 2001; m_name := AStr 2002; m_effect := 2003 |}.
Proof. vm_compute. reflexivity. Qed.

Local Close Scope N_scope.

(* Regression witness: the ORIGINAL algorithm (append missing nodes, then remove stale ones while
   iterating, Base.Py.iter_remove) keeps the second of two adjacent stale siblings and does not
   persist an insertion in front; the repaired one is exact on the same inputs. *)
Theorem C02_original_sync_refuted :
  py_sync_original [1;2;3]%N [3]%N = [2;3]%N /\ py_sync [1;2;3]%N [3]%N = [3]%N.
Proof. exact original_sync_refuted. Qed.
Print Assumptions C02_original_sync_refuted.

Theorem C02_original_order_refuted :
  py_sync_original [1;2]%N [5;1;2]%N = [1;2;5]%N /\ py_sync [1;2]%N [5;1;2]%N = [5;1;2]%N.
Proof. exact original_sync_order_refuted. Qed.
Print Assumptions C02_original_order_refuted.

(* Non-vacuity: removal of three adjacent siblings, insertion in front, a permutation with a
   replacement, and a two-level history with two saves. *)
Example C02_three_sibling_removal : py_sync [1;2;3;4;5]%N [1;5]%N = [1;5]%N.
Proof. vm_compute. reflexivity. Qed.
Example C02_insert_in_front : py_sync [1;2]%N [9;1;8;2]%N = [9;1;8;2]%N.
Proof. vm_compute. reflexivity. Qed.
Example C02_permutation : py_sync [1;2;3;4]%N [4;7;1;3]%N = [4;7;1;3]%N.
Proof. vm_compute. reflexivity. Qed.
Example C02_history_nonvacuous :
  let m1 := Obj 1 [Obj 2 [Obj 3 []; Obj 4 []]; Obj 5 []]%N in
  let m2 := Obj 1 [Obj 5 []; Obj 6 [Obj 4 []]; Obj 2 [Obj 7 []; Obj 3 []]]%N in
  let '(_, _, t) := run_history (m1, (fun _ => []), None) [Save; Edit m2; Save; Save] in
  t = Some (emit_skel m2).
Proof. vm_compute. reflexivity. Qed.
