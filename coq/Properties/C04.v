(* C04 - every written document is schema-valid COLLADA 1.4.1 and self-consistent.
   Statements only; proofs are in Proofs/BookProofs.v and Proofs/SchemaIncl.v. *)
From Coq Require Import List Bool ZArith NArith.
From PC Require Import Base.Atoms Base.Xml Model.SchemaSyntax Model.Schema Gen.Schema141
                       Model.Bookkeeping Model.EmitGrammar Model.SchemaIncl
                       Model.EmitDoc Proofs.BookProofs Proofs.SchemaIncl Proofs.EmitConf Proofs.MeshBook Model.CtorDefaults Proofs.UserIds Proofs.CtorDefaults Proofs.EditInsert Proofs.ConfTools.
Import ListNotations.

(* ---- bookkeeping, for ALL models of a source / a primitive (Model/Bookkeeping.v: emit_source,
   emit_prim follow source.py and the primitive constructors; the clauses are read off the
   emitted tree by the same functions that are run on every written document) *)

(* array count = number of values; accessor source = the array; accessor count * stride = number
   of values; stride = number of params.  wf_src is numpy's reshape((-1, k)) succeeding. *)
Theorem C04_source_counts : forall s, wf_src s -> source_ok (emit_source s) = true.
Proof. exact source_counts. Qed.
Print Assumptions C04_source_counts.

(* triangles: count = rows/3, lines: rows/2, polylist: count = length vcount and
   sum(vcount) * nind = length p, polygons: count = number of <p>.  wf_prim is what the
   constructors check (index stream reshapes; vcounts add up - /repo e70bc4e). *)
Theorem C04_prim_counts : forall p, wf_prim p -> prim_ok (emit_prim p) = true.
Proof. exact prim_counts. Qed.
Print Assumptions C04_prim_counts.

(* after Geometry.save's redirect every VERTEX input names the <vertices> element, provided the
   VERTEX inputs of the geometry all read the source <vertices> takes its POSITION from *)
Theorem C04_vertex_inputs_point_to_vertices : forall vid vref p,
  vertex_sources_agree vref p ->
  prim_vertex_fails [vid] (emit_prim (redirect_prim vid vref p)) = 0.
Proof. exact vertex_inputs_point_to_vertices. Qed.
Print Assumptions C04_vertex_inputs_point_to_vertices.

(* ---- validity route *)

(* (2) the inclusion decision is sound, for any grammar and any schema.  ID uniqueness is not a
   property of a context-free grammar: it is a hypothesis here and is checked (together with the
   stronger "all id attributes distinct" bookkeeping clause) on every written document. *)
Theorem C04_included_sound : forall G S lex x,
  included G S = true -> conforms G lex x = true -> ids_unique S x = true -> validate S lex x = true.
Proof. exact included_sound. Qed.
Print Assumptions C04_included_sound.

(* (3) everything the emit grammar allows is accepted by the schema regenerated from /repo in
   this run *)
Theorem C04_grammar_in_schema : included emit_grammar schema141 = true.
Proof. vm_compute. reflexivity. Qed.
Print Assumptions C04_grammar_in_schema.

(* any document that conforms to the emit grammar (whoever produced it) and has distinct declared
   ids is schema-valid; the full statement C04_schema_valid for the writer model follows below.
   (The name keeps its _partial suffix from the time when the writer model did not exist; it is
   the lemma that also covers documents outside the from-scratch domain, for which [conforms] is
   evaluated inside Coq per document.) *)
Theorem C04_schema_valid_partial : forall lex x,
  conforms emit_grammar lex x = true -> ids_unique schema141 x = true ->
  validate schema141 lex x = true.
Proof. intros lex x. apply C04_included_sound. exact C04_grammar_in_schema. Qed.
Print Assumptions C04_schema_valid_partial.

(* the bookkeeping clause "all id attributes of the document are distinct" (part of book_ok,
   recomputed on every written document) gives the validator's ID uniqueness, whatever the schema *)
Theorem C04_distinct_ids_unique : forall S x, book_ok x = true -> ids_unique S x = true.
Proof. exact distinct_ids_unique. Qed.
Print Assumptions C04_distinct_ids_unique.

(* so: a document that conforms to the emit grammar and whose bookkeeping agrees is schema-valid *)
Theorem C04_conforming_consistent_valid : forall lex x,
  conforms emit_grammar lex x = true -> book_ok x = true -> validate schema141 lex x = true.
Proof.
  intros lex x Hc Hb. apply C04_schema_valid_partial; auto. now apply C04_distinct_ids_unique.
Qed.
Print Assumptions C04_conforming_consistent_valid.

(* ---- the whole writer, from-scratch (constructor) domain: Model/EmitDoc.v *)

(* (1) everything the emit model writes for well-formed user content is in the emit grammar;
   structural induction over the document (Proofs/EmitConf.v), schema-independent.
   wf_user = wf_content (NCName ids/names/symbols, light colours of 3 and effect colours of 4
   numbers, shader-specific parameters and their kinds, legal camera parameter combinations,
   node children in schema order, non-empty scenes and libraries-as-lists, URIs, dateTimes,
   counts within xs:unsignedLong, the lexical table knowing the writer's own fixed words)
   and ids_distinct (all id attributes of the emitted tree differ, derived -array/-vertices
   ones included). *)
Theorem C04_emit_conforms : forall lex d, wf_user lex d = true -> conforms emit_grammar lex (emit d) = true.
Proof.
  intros lex d H. unfold wf_user in H. apply andb_true_iff in H as [H _]. now apply emit_conforms_content.
Qed.
Print Assumptions C04_emit_conforms.

(* the full statement: from (1), C04_included_sound (2), C04_grammar_in_schema (3) and the
   uniqueness of ids; no per-document conformance run is involved *)
Theorem C04_schema_valid : forall lex d, wf_user lex d = true -> validate schema141 lex (emit d) = true.
Proof.
  intros lex d H. apply C04_schema_valid_partial; [now apply C04_emit_conforms|].
  unfold wf_user in H. apply andb_true_iff in H as [_ H]. unfold ids_distinct in H.
  apply Nat.eqb_eq in H. now apply dup0_ids_unique.
Qed.
Print Assumptions C04_schema_valid.

(* ids: the id attributes of the emitted document are exactly the user's ids (cameras, effects,
   geometries with their sources, images, lights, materials, nodes, scenes) and the two kinds the
   writer derives (array id of every source, id of <vertices>), in document order; newparams
   carry sids, not ids.  So distinctness is a condition on the USER model. *)
Theorem C04_emitted_ids : forall d, all_ids (emit d) = user_ids d.
Proof. exact emitted_ids. Qed.
Print Assumptions C04_emitted_ids.

Theorem C04_user_ids_distinct : forall d, user_ids_distinct d = true -> ids_distinct d = true.
Proof. exact user_ids_distinct_emitted. Qed.
Print Assumptions C04_user_ids_distinct.

(* C04_schema_valid with every hypothesis on the user model *)
Theorem C04_schema_valid_user : forall lex d,
  wf_content lex d = true -> user_ids_distinct d = true -> validate schema141 lex (emit d) = true.
Proof.
  intros lex d Hc Hi. apply C04_schema_valid. unfold wf_user. rewrite Hc. now apply C04_user_ids_distinct.
Qed.
Print Assumptions C04_schema_valid_user.

(* constructor defaults (Model/CtorDefaults.v) as obligations of the model: a colour of up to four
   numbers is written as four floats; <transparency> is always written, defaulted by the opaque
   mode, and stays a float; a node without a name is written with name = id; a surface without a
   format is written with the default format behind <init_from>.  [zero]/[one] are the runtime's
   tokens of 0.0 and 1.0. *)
Theorem C04_default_colour_padding : forall lex zero one l,
  atom_ok lex SFloat (vtok_of_tok zero) = true -> atom_ok lex SFloat (vtok_of_tok one) = true ->
  length l <= 4 -> forallb (atom_ok lex SFloat) (map vtok_of_tok l) = true ->
  floats lex 4 (pad_colour zero one l) = true.
Proof. intros. now apply colour_padded_ok. Qed.
Print Assumptions C04_default_colour_padding.

Theorem C04_default_transparency : forall lex zero one,
  atom_ok lex SFloat (vtok_of_tok zero) = true -> atom_ok lex SFloat (vtok_of_tok one) = true ->
  (forall id sid ps sh em am di sp shi rf rfy tr try_ ior z ds,
     exists v, e_transparency (ctor_effect zero one id sid ps sh em am di sp shi rf rfy tr try_ ior z ds) = Some v /\
               In (emit_prop a_transparency [] v)
                  (xkids (emit_shader (ctor_effect zero one id sid ps sh em am di sp shi rf rfy tr try_ ior z ds)))) /\
  (forall z o, oall (float_ok lex) o = true -> oall (float_ok lex) (default_transparency zero one z o) = true).
Proof. intros lex zero one Hz Ho. split; [intros; apply transparency_always_written | intros; now apply transparency_default_ok]. Qed.
Print Assumptions C04_default_transparency.

Theorem C04_default_node_name : forall lex id ts kids,
  xattr a_name (emit_snode (ctor_node id None ts kids)) = Some id /\
  (is_ncname lex id = true -> is_ncname lex (node_name id None) = true).
Proof. intros. apply node_name_default. Qed.
Print Assumptions C04_default_node_name.

Theorem C04_default_surface_format : forall fmt0 sid img,
  exists s, xkids (emit_eparam (ctor_surface fmt0 sid img None)) = [s] /\ xkids s = [txt a_init_from img; txt a_format fmt0].
Proof. intros. apply surface_format_default. Qed.
Print Assumptions C04_default_surface_format.

(* first step towards "a valid loaded document plus one edit stays valid" (PARTIAL: the
   <contributor> rule only; the light and sampler2D rules, which use the same placement helper,
   and the general statement over loaded trees - which needs a model of load - are not done).
   [place] is util._correctValInNode's placement (behind the last sibling named in [after]); a field
   that was absent and is set yields exactly the element the writer model emits for the updated
   contributor, which conforms to the emit grammar. *)
Theorem C04_contributor_field_insert_conforms_partial : forall lex f v c,
  wf_contributor lex c = true -> get_field f c = None ->
  (f = FSource -> tval lex (SLex lx_anyURI) v = true) ->
  confh emit_grammar lex rContributor
        (el a_contributor [] None (place (field_after f) (txt (field_tag f) v) (xkids (emit_contributor c)))) = true.
Proof. exact contributor_insert_conforms. Qed.
Print Assumptions C04_contributor_field_insert_conforms_partial.

(* the placement matters: appending the author instead (what the defect fixed by /repo 9920088 did)
   gives a different tree whenever another field is present *)
Example C04_placement_discriminates :
  let c := Contributor None None None (Some [TWord 1%N]) None in
  place (field_after FAuthor) (txt a_author [TWord 2%N]) (xkids (emit_contributor c)) <>
  xkids (emit_contributor c) ++ [txt a_author [TWord 2%N]].
Proof. vm_compute. discriminate. Qed.

(* the bookkeeping clauses at the level of the whole <mesh> the writer model emits for a geometry
   (sources, <vertices>, redirected primitives): every failure counter of Model/Bookkeeping.v
   (array count, accessor source, count*stride, stride = params, primitive counts, VERTEX inputs)
   is zero, for all geometry models whose sources reshape, whose primitives pass the
   constructors' checks and whose VERTEX inputs read the source <vertices> is built on *)
Theorem C04_mesh_bookkeeping : forall g,
  wf_src (g_src0 g) -> Forall wf_src (g_sources g) -> Forall wf_prim (g_prims g) ->
  Forall (vertex_sources_agree (g_vref g)) (g_prims g) ->
  mesh_fails (mesh_of g) = [0; 0; 0; 0; 0; 0].
Proof. exact mesh_bookkeeping. Qed.
Print Assumptions C04_mesh_bookkeeping.

(* ---- non-vacuity *)

(* a float source with 2 rows of X Y Z *)
Example C04_source_nonvacuous :
  let s := SrcM 1000%N 1001%N [TInt 0%Z; TInt 1%Z; TNum 0%N; TInt 2%Z; TNum 1%N; TInt 3%Z] [a_X; a_Y; a_Z] a_float_array a_float in
  wf_src s /\ source_fails (emit_source s) = (0, 0, 0, 0).
Proof. vm_compute. repeat split; reflexivity. Qed.

(* ... and a stale count is seen by the clause: the same tree with count="5" *)
Example C04_source_clause_discriminates :
  source_fails (El 0%N tns a_source [] None
    [El 0%N tns a_float_array [(a_count, AInt 5%Z); (a_id, AStr 1001%N)] (Some (map TInt [0;1;2;3;4;5]%Z)) [];
     El 0%N tns a_technique_common [] None
       [El 0%N tns a_accessor [(a_count, AInt 2%Z); (a_source, ARef true 1001%N); (a_stride, AInt 2%Z)] None
          [El 0%N tns a_param [] None []; El 0%N tns a_param [] None []; El 0%N tns a_param [] None []]]]) = (1, 0, 1, 1).
Proof. vm_compute. reflexivity. Qed.

(* a polylist with two input columns (offsets 0 and 2: a gap) and vcounts 3, 1 *)
Example C04_prim_nonvacuous :
  let ins := [InpM 0%Z a_VERTEX (ARef true 1002%N) None; InpM 2%Z a_NORMAL (ARef true 1003%N) (Some (AInt 0%Z))] in
  let p := PrimM (KPolylist [3; 1]%Z) ins [map TInt [0;0;0; 1;0;1; 2;0;0; 0;0;1]%Z] (Some (AStr 1004%N)) in
  wf_prim p /\ prim_fails (emit_prim p) = 0 /\
  vertex_sources_agree 1002%N p /\
  prim_vertex_fails [1005%N] (emit_prim (redirect_prim 1005%N 1002%N p)) = 0 /\
  prim_vertex_fails [1005%N] (emit_prim p) = 1.
Proof.
  vm_compute. repeat split; try reflexivity; try discriminate.
  - repeat constructor; discriminate.
  - repeat constructor; discriminate.
  - repeat constructor; intros; try reflexivity; discriminate.
Qed.

(* a minimal document in the emit grammar; the lexical table says atom 1000 is a dateTime *)
Definition tiny_doc (kids : list xml) : xml :=
  El 1%N a_ns141 a_COLLADA [(a_version, AStr sa_1_4_1)] None kids.
Definition tiny_asset : xml :=
  El 2%N a_ns141 a_asset [] None
     [El 3%N a_ns141 a_created [] (Some [TWord 1000%N]) []; El 4%N a_ns141 a_modified [] (Some [TWord 1000%N]) [];
      El 5%N a_ns141 a_up_axis [] (Some [TWord a_Y_UP]) []].
Definition tiny_scene : xml := El 6%N a_ns141 a_scene [] None [].
Definition tiny_lex := lex_of [(1000%N, 8%N)].

Example C04_validity_nonvacuous :
  conforms emit_grammar tiny_lex (tiny_doc [tiny_asset; tiny_scene]) = true /\
  ids_unique schema141 (tiny_doc [tiny_asset; tiny_scene]) = true /\
  validate schema141 tiny_lex (tiny_doc [tiny_asset; tiny_scene]) = true.
Proof. vm_compute. repeat split; reflexivity. Qed.

(* the validator discriminates: children out of schema order, a missing required child, a
   created date that is not a dateTime *)
Example C04_validator_rejects :
  validate schema141 tiny_lex (tiny_doc [tiny_scene; tiny_asset]) = false /\
  validate schema141 tiny_lex (tiny_doc [tiny_scene]) = false /\
  validate schema141 (lex_of []) (tiny_doc [tiny_asset; tiny_scene]) = false.
Proof. vm_compute. repeat split; reflexivity. Qed.

(* a document with every library: camera, phong effect with a texture map and its two newparams,
   geometry (two sources, triangles with a gap-free two-column index, double sided), image, spot
   light, material, a library node, a scene whose node holds transforms, one child of each kind
   in schema order, a bound material and a nested node; every word is an NCName except the date *)
Definition lex0 : atom -> N := fun a => if N.eqb a 2000 then 8%N else 535%N.
Definition nm (n : N) : aval := AStr n.
Definition fl (l : list nat) : list tok := map (fun n => TInt (Z.of_nat n)) l.
Definition doc0 : doc :=
  Doc (Asset [Contributor (Some [TWord 1001%N]) None None None (Some [TWord 1002%N])] [TWord 2000%N] [TWord 2000%N]
             None None None (Some [TWord 1003%N; TWord 1004%N]) (Some (nm 1005%N, AInt 1%Z)) [TWord a_Z_UP])
      [Camera (nm 1010%N) true (Some (fl [45])) None (Some [TNum 0%N]) (fl [1]) (fl [100])]
      [Effect (nm 1020%N) (nm 1021%N)
              [PSurface (nm 1022%N) [TWord 1040%N] [TWord 1023%N]; PSampler (nm 1024%N) [TWord 1022%N] (Some [TWord a_LINEAR]) None]
              ShPhong (Some (VColor (fl [0;0;0;1]))) None (Some (VMap (nm 1024%N) (nm 1025%N))) None (Some (VFloat (fl [2])))
              None None (Some (VColor (fl [1;1;1;1]))) (Some (VFloat (fl [1]))) None true (fl [0])]
      [Geometry (nm 1030%N) (Some (nm 1031%N))
                (SrcM 1032%N 1033%N (fl [0;0;0;1;0;0;0;1;0]) [a_X; a_Y; a_Z] a_float_array a_float)
                [SrcM 1034%N 1035%N (fl [0;0;1]) [a_X; a_Y; a_Z] a_float_array a_float]
                1036%N 1032%N
                [PrimM KTriangles [InpM 0 a_VERTEX (ARef true 1032%N) None; InpM 1 a_NORMAL (ARef true 1034%N) None]
                       [fl [0;0;1;0;2;0]] (Some (nm 1037%N))]
                true]
      [Image (nm 1040%N) [TWord 1041%N]]
      [Light (nm 1050%N) LSpot (fl [1;1;1]) (Some (fl [1])) None None (Some (fl [30])) None]
      [Material (nm 1060%N) (nm 1061%N) 1020%N]
      [SNode (nm 1070%N) (nm 1070%N) [(TScale, fl [1;1;1])] [SLight 1050%N]]
      [VScene (nm 1080%N)
              (SNode (nm 1081%N) (nm 1082%N) [(TTranslate, fl [1;2;3]); (TRotate, fl [0;0;1;90])]
                     [SCamera 1010%N; SGeometry 1030%N [MatNode (nm 1037%N) 1060%N [Bvi (nm 1025%N) (nm a_TEXCOORD) (Some (AInt 0%Z))]];
                      SLight 1050%N; SInst 1070%N; SNode (nm 1083%N) (nm 1083%N) [] [SExtra]; SExtra]) []]
      (Some 1080%N).

Example C04_schema_valid_nonvacuous :
  wf_user lex0 doc0 = true /\ user_ids_distinct doc0 = true /\ length (user_ids doc0) = 15 /\ Nat.ltb 100 (xml_size (emit doc0)) = true /\ validate schema141 lex0 (emit doc0) = true /\
  book_ok (emit doc0) = true.
Proof. vm_compute. repeat split; reflexivity. Qed.

(* wf_user is not trivially true: children out of schema order, a four-component light colour,
   a specular colour on a lambert shader, a duplicate id *)
Example C04_wf_user_discriminates :
  wf_snode lex0 (SNode (nm 1%N) (nm 1%N) [] [SLight 2%N; SCamera 3%N]) = false /\
  wf_light lex0 (Light (nm 1%N) LPoint (fl [1;1;1;1]) None None None None None) = false /\
  wf_effect lex0 (Effect (nm 1%N) (nm 2%N) [] ShLambert None None None (Some (VColor (fl [0;0;0;1]))) None None None None None None false (fl [0])) = false /\
  ids_distinct (Doc (d_asset doc0) (d_cameras doc0 ++ d_cameras doc0) [] [] [] [] [] [] [] None) = false.
Proof. vm_compute. repeat split; reflexivity. Qed.
