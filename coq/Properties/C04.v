(* C04 - every written document is schema-valid COLLADA 1.4.1 and self-consistent.
   Statements only; proofs are in Proofs/BookProofs.v and Proofs/SchemaIncl.v. *)
From Coq Require Import List Bool ZArith NArith.
From PC Require Import Base.Atoms Base.Xml Model.SchemaSyntax Model.Schema Gen.Schema141
                       Model.Bookkeeping Model.EmitGrammar Model.SchemaIncl
                       Proofs.BookProofs Proofs.SchemaIncl.
Import ListNotations.

(* ---- bookkeeping, for ALL models of a source / a primitive (Model/Bookkeeping.v: emit_source,
   emit_prim follow source.py and the primitive constructors; the clauses are read off the
   emitted tree by the same functions that are run on every written document) *)

(* array count = number of values; accessor source = the array; accessor count * stride = number
   of values; stride = number of params.  wf_src is numpy's reshape((-1, k)) succeeding. *)
Theorem C04_source_counts : forall s, wf_src s -> source_ok (emit_source s) = true.
Proof. exact source_counts. Qed.
Print Assumptions C04_source_counts.

(* triangles: count = rows/3, lines: rows/2, polylist: count = length vcount and
   sum(vcount) * nind = length p, polygons: count = number of <p>.  wf_prim is what the
   constructors check (index stream reshapes; vcounts add up - /repo e70bc4e). *)
Theorem C04_prim_counts : forall p, wf_prim p -> prim_ok (emit_prim p) = true.
Proof. exact prim_counts. Qed.
Print Assumptions C04_prim_counts.

(* after Geometry.save's redirect every VERTEX input names the <vertices> element, provided the
   VERTEX inputs of the geometry all read the source <vertices> takes its POSITION from *)
Theorem C04_vertex_inputs_point_to_vertices : forall vid vref p,
  vertex_sources_agree vref p ->
  prim_vertex_fails [vid] (emit_prim (redirect_prim vid vref p)) = 0.
Proof. exact vertex_inputs_point_to_vertices. Qed.
Print Assumptions C04_vertex_inputs_point_to_vertices.

(* ---- validity route *)

(* (2) the inclusion decision is sound, for any grammar and any schema.  ID uniqueness is not a
   property of a context-free grammar: it is a hypothesis here and is checked (together with the
   stronger "all id attributes distinct" bookkeeping clause) on every written document. *)
Theorem C04_included_sound : forall G S lex x,
  included G S = true -> conforms G lex x = true -> ids_unique S x = true -> validate S lex x = true.
Proof. exact included_sound. Qed.
Print Assumptions C04_included_sound.

(* (3) everything the emit grammar allows is accepted by the schema regenerated from /repo in
   this run *)
Theorem C04_grammar_in_schema : included emit_grammar schema141 = true.
Proof. vm_compute. reflexivity. Qed.
Print Assumptions C04_grammar_in_schema.

(* Full statement of DESIGN.md (NOT proved):
     C04_schema_valid : forall d, wf_user d = true -> validate schema141 (emit d) = true
   with (1) C04_emit_conforms : wf_user d -> conforms emit_grammar (emit d), by induction over a
   whole-document emit model.  What is missing is exactly (1): there is no Gallina model [emit]
   of the whole writer.  Its place is taken by a check: [conforms emit_grammar] is evaluated
   inside Coq on every from-scratch document the implementation writes in a run (Check/C04.v),
   which is the tie of the grammar to the code.  Proved below: every document that passes that
   check is schema-valid. *)
Theorem C04_schema_valid_partial : forall lex x,
  conforms emit_grammar lex x = true -> ids_unique schema141 x = true ->
  validate schema141 lex x = true.
Proof. intros lex x. apply C04_included_sound. exact C04_grammar_in_schema. Qed.
Print Assumptions C04_schema_valid_partial.

(* the bookkeeping clause "all id attributes of the document are distinct" (part of book_ok,
   recomputed on every written document) gives the validator's ID uniqueness, whatever the schema *)
Theorem C04_distinct_ids_unique : forall S x, book_ok x = true -> ids_unique S x = true.
Proof. exact distinct_ids_unique. Qed.
Print Assumptions C04_distinct_ids_unique.

(* so: a document that conforms to the emit grammar and whose bookkeeping agrees is schema-valid *)
Theorem C04_conforming_consistent_valid : forall lex x,
  conforms emit_grammar lex x = true -> book_ok x = true -> validate schema141 lex x = true.
Proof.
  intros lex x Hc Hb. apply C04_schema_valid_partial; auto. now apply C04_distinct_ids_unique.
Qed.
Print Assumptions C04_conforming_consistent_valid.

(* ---- non-vacuity *)

(* a float source with 2 rows of X Y Z *)
Example C04_source_nonvacuous :
  let s := SrcM 1000%N 1001%N [TInt 0%Z; TInt 1%Z; TNum 0%N; TInt 2%Z; TNum 1%N; TInt 3%Z] [a_X; a_Y; a_Z] a_float_array a_float in
  wf_src s /\ source_fails (emit_source s) = (0, 0, 0, 0).
Proof. vm_compute. repeat split; reflexivity. Qed.

(* ... and a stale count is seen by the clause: the same tree with count="5" *)
Example C04_source_clause_discriminates :
  source_fails (El 0%N tns a_source [] None
    [El 0%N tns a_float_array [(a_count, AInt 5%Z); (a_id, AStr 1001%N)] (Some (map TInt [0;1;2;3;4;5]%Z)) [];
     El 0%N tns a_technique_common [] None
       [El 0%N tns a_accessor [(a_count, AInt 2%Z); (a_source, ARef true 1001%N); (a_stride, AInt 2%Z)] None
          [El 0%N tns a_param [] None []; El 0%N tns a_param [] None []; El 0%N tns a_param [] None []]]]) = (1, 0, 1, 1).
Proof. vm_compute. reflexivity. Qed.

(* a polylist with two input columns (offsets 0 and 2: a gap) and vcounts 3, 1 *)
Example C04_prim_nonvacuous :
  let ins := [InpM 0%Z a_VERTEX (ARef true 1002%N) None; InpM 2%Z a_NORMAL (ARef true 1003%N) (Some (AInt 0%Z))] in
  let p := PrimM (KPolylist [3; 1]%Z) ins [map TInt [0;0;0; 1;0;1; 2;0;0; 0;0;1]%Z] (Some (AStr 1004%N)) in
  wf_prim p /\ prim_fails (emit_prim p) = 0 /\
  vertex_sources_agree 1002%N p /\
  prim_vertex_fails [1005%N] (emit_prim (redirect_prim 1005%N 1002%N p)) = 0 /\
  prim_vertex_fails [1005%N] (emit_prim p) = 1.
Proof.
  vm_compute. repeat split; try reflexivity; try discriminate.
  - repeat constructor; discriminate.
  - repeat constructor; discriminate.
  - repeat constructor; intros; try reflexivity; discriminate.
Qed.

(* a minimal document in the emit grammar; the lexical table says atom 1000 is a dateTime *)
Definition tiny_doc (kids : list xml) : xml :=
  El 1%N a_ns141 a_COLLADA [(a_version, AStr sa_1_4_1)] None kids.
Definition tiny_asset : xml :=
  El 2%N a_ns141 a_asset [] None
     [El 3%N a_ns141 a_created [] (Some [TWord 1000%N]) []; El 4%N a_ns141 a_modified [] (Some [TWord 1000%N]) [];
      El 5%N a_ns141 a_up_axis [] (Some [TWord a_Y_UP]) []].
Definition tiny_scene : xml := El 6%N a_ns141 a_scene [] None [].
Definition tiny_lex := lex_of [(1000%N, 8%N)].

Example C04_validity_nonvacuous :
  conforms emit_grammar tiny_lex (tiny_doc [tiny_asset; tiny_scene]) = true /\
  ids_unique schema141 (tiny_doc [tiny_asset; tiny_scene]) = true /\
  validate schema141 tiny_lex (tiny_doc [tiny_asset; tiny_scene]) = true.
Proof. vm_compute. repeat split; reflexivity. Qed.

(* the validator discriminates: children out of schema order, a missing required child, a
   created date that is not a dateTime *)
Example C04_validator_rejects :
  validate schema141 tiny_lex (tiny_doc [tiny_scene; tiny_asset]) = false /\
  validate schema141 tiny_lex (tiny_doc [tiny_scene]) = false /\
  validate schema141 (lex_of []) (tiny_doc [tiny_asset; tiny_scene]) = false.
Proof. vm_compute. repeat split; reflexivity. Qed.
