(* C13 - transforms have their mathematical meaning (column-vector convention) and compose in
   listed order.  Statements only; proofs are in Proofs/Transforms.v and Proofs/TransformsR.v.
   Every statement is about the definitions of Gen/Transforms.v, which harness/translate/
   transforms.py re-emits from collada/scene.py on every run: make_rotation, rotate_matrix,
   translate_matrix, scale_matrix, matrix_matrix, lookat_matrix, the loaders, and the two
   node-matrix folds (Node.__init__, Node.save).  [O : ops R] is any carrier with the
   operations the Python uses; [is_ring O] says its + * - form a commutative ring. *)
From Coq Require Import List ZArith Reals.
From PC Require Import Base.Py Base.Mat Gen.Transforms Model.Transforms Proofs.Transforms Proofs.TransformsR.
Import ListNotations.

Definition is_ring {R : Type} (O : ops R) : Prop :=
  ring_theory (o0 O) (o1 O) (oadd O) (omul O) (osub O) (oopp O) (@eq R).
Definition unit_circle {R : Type} (O : ops R) (a : R) : Prop :=
  oadd O (omul O (ocos O a) (ocos O a)) (omul O (osin O a) (osin O a)) = o1 O.
Definition unit_axis {R : Type} (O : ops R) (x y z : R) : Prop :=
  oadd O (oadd O (omul O x x) (omul O y y)) (omul O z z) = o1 O.

(* ---- rotate: unit axis, any angle *)
Theorem C13_rotation_orthogonal : forall R (O : ops R), is_ring O -> forall x y z a,
  unit_circle O a -> unit_axis O x y z ->
  let M := make_rotation O x y z a in
  mmul (oadd O) (omul O) (mtrans M) M = mid (o0 O) (o1 O) /\
  mmul (oadd O) (omul O) M (mtrans M) = mid (o0 O) (o1 O).
Proof. intros R O H x y z a Hc Hx. split; [exact (rot_orthogonal R O H x y z a Hc Hx) | exact (rot_orthogonal_r R O H x y z a Hc Hx)]. Qed.
Print Assumptions C13_rotation_orthogonal.

Theorem C13_rotation_det : forall R (O : ops R), is_ring O -> forall x y z a,
  unit_circle O a -> unit_axis O x y z ->
  det3 (oadd O) (omul O) (osub O) (make_rotation O x y z a) = o1 O.
Proof. exact rot_det. Qed.
Print Assumptions C13_rotation_det.

Theorem C13_rotation_fixes_axis : forall R (O : ops R), is_ring O -> forall x y z a,
  unit_circle O a -> unit_axis O x y z ->
  mapply (oadd O) (omul O) (make_rotation O x y z a) (direction (o0 O) (x, y, z)) = direction (o0 O) (x, y, z).
Proof. exact rot_fixes_axis. Qed.
Print Assumptions C13_rotation_fixes_axis.

Theorem C13_rotation_trace : forall R (O : ops R), is_ring O -> forall x y z a,
  unit_circle O a -> unit_axis O x y z ->
  trace3 (oadd O) (make_rotation O x y z a) = oadd O (o1 O) (omul O (oadd O (o1 O) (o1 O)) (ocos O a)).
Proof. exact rot_trace. Qed.
Print Assumptions C13_rotation_trace.

(* right-handed: about +z it is [[c,-s,0],[s,c,0],[0,0,1]] - x turns toward y; likewise +x, +y *)
Theorem C13_rotation_right_handed : forall R (O : ops R), is_ring O -> forall a,
  let c := ocos O a in let s := osin O a in let o := o0 O in let i := o1 O in let n := oopp O in
  make_rotation O o o i a = Mat c (n s) o o  s c o o  o o i o  o o o i /\
  make_rotation O i o o a = Mat i o o o  o c (n s) o  o s c o  o o o i /\
  make_rotation O o i o a = Mat c o s o  o i o o  (n s) o c o  o o o i /\
  mapply (oadd O) (omul O) (make_rotation O o o i a) (i, o, o, o) = (c, s, o, o).
Proof.
  intros R O H a. repeat split.
  - exact (rot_about_z R O H a). - exact (rot_about_x R O H a). - exact (rot_about_y R O H a).
  - exact (rot_z_turns_x_toward_y R O H a).
Qed.
Print Assumptions C13_rotation_right_handed.

(* the <rotate> element converts degrees by angle * pi / 180 and is otherwise make_rotation *)
Theorem C13_rotate_degrees : forall R (O : ops R) x y z deg,
  rotate_matrix O x y z deg = make_rotation O x y z (odiv O (omul O deg (opi O)) (oofZ O 180%Z)).
Proof. exact rotate_is_rotation_at_radians. Qed.
Print Assumptions C13_rotate_degrees.

(* ---- translate, scale, matrix *)
Theorem C13_translate_apply : forall R (O : ops R), is_ring O -> forall x y z px py pz w,
  mapply (oadd O) (omul O) (translate_matrix O x y z) (px, py, pz, w) =
  (oadd O px (omul O x w), oadd O py (omul O y w), oadd O pz (omul O z w), w).
Proof. exact translate_apply. Qed.
Print Assumptions C13_translate_apply.

Theorem C13_translate_point_direction : forall R (O : ops R), is_ring O -> forall x y z p,
  mapply (oadd O) (omul O) (translate_matrix O x y z) (point (o1 O) p) = point (o1 O) (vadd (oadd O) p (x, y, z)) /\
  mapply (oadd O) (omul O) (translate_matrix O x y z) (direction (o0 O) p) = direction (o0 O) p.
Proof. intros R O H x y z p. split; [exact (translate_point R O H x y z p) | exact (translate_direction R O H x y z p)]. Qed.
Print Assumptions C13_translate_point_direction.

Theorem C13_scale_apply : forall R (O : ops R), is_ring O -> forall x y z px py pz w,
  mapply (oadd O) (omul O) (scale_matrix O x y z) (px, py, pz, w) = (omul O x px, omul O y py, omul O z pz, w).
Proof. exact scale_apply. Qed.
Print Assumptions C13_scale_apply.

Theorem C13_matrix_row_major : forall R (O : ops R) l i j, (i < 4)%nat -> (j < 4)%nat ->
  mget (o0 O) (matrix_matrix O l) i j = nth (4 * i + j) l (o0 O).
Proof. exact matrix_cell. Qed.
Print Assumptions C13_matrix_row_major.

Definition dot4 {R : Type} (O : ops R) (a b c d x y z w : R) : R :=
  oadd O (oadd O (oadd O (omul O a x) (omul O b y)) (omul O c z)) (omul O d w).
Theorem C13_matrix_apply : forall R (O : ops R) a00 a01 a02 a03 a10 a11 a12 a13 a20 a21 a22 a23 a30 a31 a32 a33 vx vy vz vw,
  mapply (oadd O) (omul O)
    (matrix_matrix O [a00; a01; a02; a03; a10; a11; a12; a13; a20; a21; a22; a23; a30; a31; a32; a33]) (vx, vy, vz, vw) =
  (dot4 O a00 a01 a02 a03 vx vy vz vw, dot4 O a10 a11 a12 a13 vx vy vz vw,
   dot4 O a20 a21 a22 a23 vx vy vz vw, dot4 O a30 a31 a32 a33 vx vy vz vw).
Proof. exact matrix_apply. Qed.
Print Assumptions C13_matrix_apply.

(* ---- lookat *)
Theorem C13_lookat_origin_to_eye : forall R (O : ops R), is_ring O -> forall eye interest up,
  mapply (oadd O) (omul O) (lookat_matrix O eye interest up) (o0 O, o0 O, o0 O, o1 O) = point (o1 O) eye.
Proof. exact lookat_origin_to_eye. Qed.
Print Assumptions C13_lookat_origin_to_eye.

(* -Z is sent to k * (interest - eye), k = 1/|eye - interest| as toUnitVec computes it
   (division being multiplication by the reciprocal) *)
Theorem C13_lookat_minus_z_to_interest : forall R (O : ops R), is_ring O ->
  (forall p q, odiv O p q = omul O p (oinv O q)) ->
  forall eye interest up,
  let d := vsub (osub O) eye interest in
  mapply (oadd O) (omul O) (lookat_matrix O eye interest up) (o0 O, o0 O, oopp O (o1 O), o0 O) =
  direction (o0 O) (vscale (omul O) (oinv O (osqrt O (vdot (oadd O) (omul O) d d))) (vsub (osub O) interest eye)).
Proof. exact lookat_minus_z. Qed.
Print Assumptions C13_lookat_minus_z_to_interest.

(* the frame is right-handed: side = k2 * (up x front) with k2 = 1/|front x up| as toUnitVec
   computes it, and the determinant of the linear part is k2 * |front x up|^2 *)
Theorem C13_lookat_right_handed : forall R (O : ops R), is_ring O ->
  (forall p q, odiv O p q = omul O p (oinv O q)) ->
  forall eye interest up,
  let front := toUnitVec O (vsub (osub O) eye interest) in
  let fu := vcross (omul O) (osub O) front up in
  let k2 := oinv O (osqrt O (vdot (oadd O) (omul O) fu fu)) in
  mcol3 (o0 O) (lookat_matrix O eye interest up) 0 = vscale (omul O) k2 (vcross (omul O) (osub O) up front) /\
  det3 (oadd O) (omul O) (osub O) (lookat_matrix O eye interest up) = omul O k2 (vdot (oadd O) (omul O) fu fu).
Proof.
  intros R O H Hd eye interest up. split; [exact (lookat_side_column R O H Hd eye interest up) | exact (lookat_det R O H Hd eye interest up)].
Qed.
Print Assumptions C13_lookat_right_handed.

(* ---- a loaded element is the constructor applied to its floats in document order *)
Theorem C13_loaded_is_constructed : forall R (O : ops R),
  (forall x y z, transform_matrix O (TLoaded 0 [x; y; z]) = transform_matrix O (TTranslate x y z)) /\
  (forall x y z a, transform_matrix O (TLoaded 1 [x; y; z; a]) = transform_matrix O (TRotate x y z a)) /\
  (forall x y z, transform_matrix O (TLoaded 2 [x; y; z]) = transform_matrix O (TScale x y z)) /\
  (forall l, transform_matrix O (TLoaded 3 l) = transform_matrix O (TMatrix l)) /\
  (forall e0 e1 e2 i0 i1 i2 u0 u1 u2, transform_matrix O (TLoaded 4 [e0; e1; e2; i0; i1; i2; u0; u1; u2]) =
                                      transform_matrix O (TLookAt (e0, e1, e2) (i0, i1, i2) (u0, u1, u2))).
Proof.
  intros R O.
  exact (conj (load_translate R O) (conj (load_rotate R O) (conj (load_scale R O) (conj (load_matrix R O) (load_lookat R O))))).
Qed.
Print Assumptions C13_loaded_is_constructed.

(* ---- the node matrix is the product of the transforms' matrices in listed order *)
Theorem C13_node_matrix_is_product : forall R (O : ops R), is_ring O -> forall ts,
  node_matrix O ts = spec_matrix O ts.
Proof. exact node_matrix_is_product. Qed.
Print Assumptions C13_node_matrix_is_product.

Theorem C13_node_matrix_app : forall R (O : ops R), is_ring O -> forall ts1 ts2,
  node_matrix O (ts1 ++ ts2) = mmul (oadd O) (omul O) (node_matrix O ts1) (node_matrix O ts2).
Proof. exact node_matrix_app. Qed.
Print Assumptions C13_node_matrix_app.

(* the last listed transform acts first on a column vector (and the first listed acts last) *)
Theorem C13_apply_order : forall R (O : ops R), is_ring O -> forall ts t v,
  mapply (oadd O) (omul O) (node_matrix O (ts ++ [t])) v =
  mapply (oadd O) (omul O) (node_matrix O ts) (mapply (oadd O) (omul O) (transform_matrix O t) v) /\
  mapply (oadd O) (omul O) (node_matrix O (t :: ts)) v =
  mapply (oadd O) (omul O) (transform_matrix O t) (mapply (oadd O) (omul O) (node_matrix O ts) v).
Proof. intros R O H ts t v. split; [exact (apply_order R O H ts t v) | exact (apply_order_cons R O H t ts v)]. Qed.
Print Assumptions C13_apply_order.

(* ---- save() recomputes the matrix from the edited list, after any edit history *)
Theorem C13_save_recomputes : forall R (O : ops R), is_ring O -> forall ts es,
  let n := save O (run_edits (construct O ts) es) in
  transforms n = fold_left apply_edit es ts /\
  matrix n = spec_matrix O (fold_left apply_edit es ts).
Proof. exact save_recomputes. Qed.
Print Assumptions C13_save_recomputes.

(* ... also when saves FAIL in between (Node.save recomputes, then saves its children, one of which may
   raise): for ANY history of edits, successful saves and failed saves - a failed save may leave any
   matrix whatever in the cache - the next successful save stores the product of the current list *)
Theorem C13_save_recomputes_after_failed_saves : forall R (O : ops R), is_ring O -> forall ts h,
  let n := run_history O (construct O ts) (h ++ [HSave]) in
  transforms n = history_transforms ts h /\
  matrix n = spec_matrix O (history_transforms ts h).
Proof. exact save_recomputes_after_failures. Qed.
Print Assumptions C13_save_recomputes_after_failed_saves.

(* ---- over the reals: cos, sin, PI, sqrt of the standard library *)
Theorem C13_degrees : 
  mapply Rplus Rmult (rotate_matrix Rops 0 0 1 90)%R (1, 0, 0, 0)%R = (0, 1, 0, 0)%R /\
  mapply Rplus Rmult (rotate_matrix Rops 1 0 0 90)%R (0, 1, 0, 0)%R = (0, 0, 1, 0)%R.
Proof. split; [exact rotate_z_90 | exact rotate_x_90]. Qed.
Print Assumptions C13_degrees.

Theorem C13_rotate_real_is_proper_rotation : forall x y z deg : R, (x * x + y * y + z * z = 1)%R ->
  let M := rotate_matrix Rops x y z deg in
  mmul Rplus Rmult (mtrans M) M = mid 0%R 1%R /\
  det3 Rplus Rmult Rminus M = 1%R /\
  mapply Rplus Rmult M (x, y, z, 0%R) = (x, y, z, 0%R) /\
  trace3 Rplus M = (1 + 2 * cos (deg * PI / 180))%R.
Proof. exact rotate_R_proper. Qed.
Print Assumptions C13_rotate_real_is_proper_rotation.

Theorem C13_lookat_real_points_at_interest : forall eye interest up : vec3 R, eye <> interest ->
  exists k : R, (0 < k)%R /\
    mapply Rplus Rmult (lookat_matrix Rops eye interest up) (0, 0, -1, 0)%R =
    direction 0%R (vscale Rmult k (vsub Rminus interest eye)).
Proof. exact lookat_R_minus_z. Qed.
Print Assumptions C13_lookat_real_points_at_interest.

Theorem C13_lookat_real_right_handed : forall eye interest up : vec3 R,
  let front := toUnitVec Rops (vsub Rminus eye interest) in
  let fu := vcross Rmult Rminus front up in
  (vdot Rplus Rmult fu fu > 0)%R ->
  (det3 Rplus Rmult Rminus (lookat_matrix Rops eye interest up) > 0)%R.
Proof. exact lookat_R_right_handed. Qed.
Print Assumptions C13_lookat_real_right_handed.

(* ---- non-vacuity: the integer instance is a ring; 90 degrees about +z meets both unit
   hypotheses; order matters (translate;rotate differs from rotate;translate), so the
   product theorems are not trivially true; a lookat and an edit history computed. *)
Example C13_zops_is_ring : is_ring zops.
Proof. exact InitialRing.Zth. Qed.
Example C13_unit_hypotheses_met : unit_circle zops 90%Z /\ unit_axis zops 0%Z 0%Z 1%Z.
Proof. split; reflexivity. Qed.
Example C13_rotation_instance :
  mat_to_list (rotate_matrix zops 0 0 1 90)%Z = [0; -1; 0; 0;  1; 0; 0; 0;  0; 0; 1; 0;  0; 0; 0; 1]%Z.
Proof. vm_compute. reflexivity. Qed.
Example C13_order_matters :
  let T := TTranslate 1 2 3 in let Rz := TRotate 0 0 1 90 in
  mat_to_list (node_matrix zops [T; Rz])%Z = [0; -1; 0; 1;  1; 0; 0; 2;  0; 0; 1; 3;  0; 0; 0; 1]%Z /\
  mat_to_list (node_matrix zops [Rz; T])%Z = [0; -1; 0; -2;  1; 0; 0; 1;  0; 0; 1; 3;  0; 0; 0; 1]%Z.
Proof. vm_compute. split; reflexivity. Qed.
Example C13_lookat_instance :
  mat_to_list (lookat_matrix zops (1, 2, 3) (1, 2, -7) (0, 5, 4))%Z =
  [1; 0; 0; 1;  0; 5; 0; 2;  0; 4; 1; 3;  0; 0; 0; 1]%Z.
Proof. vm_compute. reflexivity. Qed.
Example C13_edit_history_instance :
  let n := save zops (run_edits (construct zops [TTranslate 1 0 0; TScale 2 2 2])
                                [EInsert 0 (TRotate 0 0 1 90); EDelete (-1); EAppend (TLoaded 0 [0; 5; 0])])%Z in
  length (transforms n) = 3%nat /\
  mat_to_list (matrix n) = [0; -1; 0; -5;  1; 0; 0; 1;  0; 0; 1; 0;  0; 0; 0; 1]%Z.
Proof. vm_compute. split; reflexivity. Qed.
Example C13_failed_save_history_instance :
  let garbage := mzero 0%Z in
  let n := run_history zops (construct zops [TTranslate 1 0 0])
             [HEdit (EAppend (TScale 2 2 2)); HSaveFailed garbage; HEdit (EInsert 0 (TRotate 0 0 1 90));
              HSaveFailed garbage; HSave]%Z in
  mat_to_list (matrix n) = [0; -2; 0; 0;  2; 0; 0; 1;  0; 0; 2; 0;  0; 0; 0; 1]%Z.
Proof. vm_compute. reflexivity. Qed.
