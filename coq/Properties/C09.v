(* C09 - placeholder while the proofs are written *)
From Coq Require Import List ZArith NArith.
From PC Require Import Base.Outcome Model.IndexTable Model.PrimCtor.
Import ListNotations.
Example C09_placeholder : triangleset [Inp 0 VERTEX (Src [[1;2;3]%Z] 3)] None [0;0;0]%N <> Raise DaeMalformed.
Proof. vm_compute. discriminate. Qed.
