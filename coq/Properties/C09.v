(* C09 - primitive indices are in range and arrays have the documented shapes.
   Statements only; proofs are in Proofs/IndexTable.v and Proofs/PrimCtor.v.

   [construct kd ins mat s] is the model of TriangleSet / LineSet / Polylist / Polygons
   construction (Model/PrimCtor.v) on the resolved inputs [ins] and the index stream [s];
   [exposed p] lists every (data array, index array) pair the primitive exposes together
   with the documented component count; [exposed_inputs kd ins] lists, from the layout
   alone, the inputs a primitive of that kind exposes (first VERTEX, first NORMAL, every
   TEXCOORD, and for triangles every TEXTANGENT / TEXBINORMAL). *)
From Coq Require Import List ZArith NArith Lia.
From PC Require Import Base.Outcome Model.IndexTable Model.PrimCtor Model.PrimLoad
  Proofs.IndexTable Proofs.PrimCtor Proofs.PrimLoad.
Import ListNotations.

(* every entry of every exposed index array is a valid position in its data array ... *)
Theorem C09_accepted_in_range : forall kd ins mat s p, construct kd ins mat s = Ok p ->
  Forall (fun vn => in_range (fst vn)) (exposed p).
Proof. exact accepted_in_range. Qed.
Print Assumptions C09_accepted_in_range.

(* ... so selecting source[index] never fails: the fancy-indexing model is total on them *)
Theorem C09_selection_total : forall kd ins mat s p v nc, construct kd ins mat s = Ok p ->
  In (v, nc) (exposed p) -> exists rows, gather (s_rows (v_src v)) (v_idx v) = Ok rows.
Proof.
  intros kd ins mat s p v nc H Hin. pose proof (accepted_in_range _ _ _ _ _ H) as R.
  rewrite Forall_forall in R. specialize (R _ Hin). eexists. apply gather_total. exact R.
Qed.
Print Assumptions C09_selection_total.

(* documented shapes: every index array has len(index) x k entries (N x 3 triangles, N x 2
   lines, one per polygon corner), every data array has the documented number of components,
   and for polylists / polygons the vertex counts add up to the number of corners *)
Theorem C09_shapes : forall kd ins mat s p, construct kd ins mat s = Ok p ->
  p_kind p = kd /\
  Forall (fun vn => length (v_idx (fst vn)) = p_nrows p * kind_k kd /\
                    s_ncomp (v_src (fst vn)) = snd vn) (exposed p) /\
  (is_poly kd = true -> sum (p_vcounts p) = p_nrows p).
Proof. exact accepted_shapes. Qed.
Print Assumptions C09_shapes.

(* the exposed view of an input is exactly the SPEC's position arithmetic on the flat stream:
   entry (t, c) of the view at offset o is flat[(t*k + c)*nind + o] *)
Theorem C09_view_is_spec : forall kd ins mat s p inc t c, construct kd ins mat s = Ok p ->
  In inc (exposed_inputs kd ins) -> t < p_nrows p -> c < kind_k kd ->
  exists v, In (v, snd inc) (exposed p) /\ v_src v = i_src (fst inc) /\
    nth c (row (kind_k kd) t (v_idx v)) 0%N =
    spec_at (kind_k kd) (nind_ins ins) (i_off (fst inc)) (fst (stream_flat (nind_ins ins) s)) t c.
Proof. exact view_is_spec. Qed.
Print Assumptions C09_view_is_spec.

(* an index at any corner j of any exposed input that reaches or exceeds the length of that
   input's source - by any amount - makes construction raise DaeMalformedError *)
Theorem C09_out_of_range_rejected : forall kd ins mat s, stream_ok kd s -> bucket VERTEX ins <> [] ->
  (exists inc j, In inc (exposed_inputs kd ins) /\
     j * nind_ins ins + i_off (fst inc) < length (fst (stream_flat (nind_ins ins) s)) /\
     (N.of_nat (s_len (i_src (fst inc))) <=
      nth (j * nind_ins ins + i_off (fst inc)) (fst (stream_flat (nind_ins ins) s)) 0)%N) ->
  construct kd ins mat s = Raise DaeMalformed.
Proof. exact out_of_range_rejected. Qed.
Print Assumptions C09_out_of_range_rejected.

(* a stream whose length is not a multiple of corners x inputs *)
Theorem C09_ragged_rejected : forall kd ins mat s, stream_ok kd s -> bucket VERTEX ins <> [] ->
  length (fst (stream_flat (nind_ins ins) s)) mod (kind_k kd * nind_ins ins) <> 0 ->
  construct kd ins mat s = Raise DaeMalformed.
Proof. exact ragged_rejected. Qed.
Print Assumptions C09_ragged_rejected.

(* <polygons>: a single polygon whose own length is not a multiple of the inputs *)
Theorem C09_polygons_ragged_rejected : forall ins mat ps, bucket VERTEX ins <> [] ->
  (exists p, In p ps /\ length p mod nind_ins ins <> 0) ->
  construct KPolygons ins mat (SPolygons ps) = Raise DaeMalformed.
Proof. exact polygons_ragged_rejected. Qed.
Print Assumptions C09_polygons_ragged_rejected.

(* a source with the wrong number of components for its semantic, on any exposed input of a
   non-empty primitive *)
Theorem C09_components_rejected : forall kd ins mat s, stream_ok kd s -> bucket VERTEX ins <> [] ->
  length (fst (stream_flat (nind_ins ins) s)) <> 0 ->
  (exists inc, In inc (exposed_inputs kd ins) /\ s_ncomp (i_src (fst inc)) <> snd inc) ->
  construct kd ins mat s = Raise DaeMalformed.
Proof. exact components_rejected. Qed.
Print Assumptions C09_components_rejected.

(* vertex counts that disagree with the index stream *)
Theorem C09_vcount_mismatch_rejected : forall kd ins mat s, stream_ok kd s -> is_poly kd = true ->
  bucket VERTEX ins <> [] ->
  sum (snd (stream_flat (nind_ins ins) s)) <> length (fst (stream_flat (nind_ins ins) s)) / nind_ins ins ->
  construct kd ins mat s = Raise DaeMalformed.
Proof. exact vcount_mismatch_rejected. Qed.
Print Assumptions C09_vcount_mismatch_rejected.

(* FloatSource: data whose length is not a multiple of the stride *)
Theorem C09_stride_rejected : forall data ncomp, ncomp <> 0 -> length data mod ncomp <> 0 ->
  float_source data ncomp = Raise DaeMalformed.
Proof. exact stride_rejected. Qed.
Print Assumptions C09_stride_rejected.

Theorem C09_stride_accepted_shape : forall data ncomp src, float_source data ncomp = Ok src ->
  s_ncomp src = ncomp /\ s_len src * ncomp = length data /\ Forall (fun r => length r = ncomp) (s_rows src).
Proof. exact stride_accepted. Qed.
Print Assumptions C09_stride_accepted_shape.

(* the load path's normalising branch (params S, T, P: every third value dropped): a
   float_array that is not a multiple of its stride 3 - remainder 1 or 2 - is rejected, and an
   accepted one has exactly length/3 two-component elements *)
Theorem C09_stride_rejected_on_load_stp : forall data n, length data mod 3 <> 0 ->
  float_source_load true data n = Raise DaeMalformed.
Proof. exact stp_stride_rejected. Qed.
Print Assumptions C09_stride_rejected_on_load_stp.

Theorem C09_stp_accepted_exact : forall data n src, float_source_load true data n = Ok src ->
  s_ncomp src = 2 /\ s_len src * 3 = length data.
Proof. exact stp_accepted. Qed.
Print Assumptions C09_stp_accepted_exact.

(* whenever a vertex input is present, nothing but DaeMalformedError escapes a constructor *)
Theorem C09_only_malformed_escapes : forall kd ins mat s e, stream_ok kd s -> bucket VERTEX ins <> [] ->
  construct kd ins mat s = Raise e -> e = DaeMalformed.
Proof. exact construct_raise. Qed.
Print Assumptions C09_only_malformed_escapes.

(* ---- the load path.  [load_prim] = Geometry.load's order (every <source> through
   FloatSource.load, then <vertices>, then the primitive's inputs resolved in that scope,
   _getInputsFromList, constructor); [read_prim] = the same composition over the SPEC's purely
   positional reading of each source (element r, component c = data[r*stride + c], stride = number
   of <param>s, 3 for S,T,P of which two components are kept). *)
Theorem C09_load_source_is_positional_read : forall x, stride_of x <> 0 -> load_source x = read_source x.
Proof. exact load_source_is_read. Qed.
Print Assumptions C09_load_source_is_positional_read.

Theorem C09_load_is_ctor_of_read : forall kd es xins mat s,
  (forall x, In (XSrc x) es -> stride_of x <> 0) ->
  load_prim kd es xins mat s = read_prim kd es xins mat s /\
  (forall loaded, read_entries read_source es = Ok loaded ->
     read_prim kd es xins mat s =
     match get_inputs (map (fun xi => RI (fst (fst xi)) (snd (fst xi)) (target_of es loaded (snd xi))) xins) with
     | Ok ins => construct kd ins mat s
     | Raise e => Raise e
     end).
Proof.
  intros kd es xins mat s H. split; [now apply load_prim_is_read|].
  intros loaded E. unfold read_prim, prim_of_document. rewrite E. reflexivity.
Qed.
Print Assumptions C09_load_is_ctor_of_read.

(* modelled convention: the accessor's stride / offset / count attributes are read by nobody -
   two sources that differ only there load identically (and so do the primitives over them) *)
Theorem C09_accessor_attributes_ignored : forall stp data n st1 of1 ct1 st2 of2 ct2,
  load_source (XS stp data n st1 of1 ct1) = load_source (XS stp data n st2 of2 ct2).
Proof. reflexivity. Qed.
Print Assumptions C09_accessor_attributes_ignored.

Example C09_accessor_convention :
  (* six values, two <param>s: three 2-component elements, whatever stride="3" offset="1" count="7" say *)
  load_source (XS false [1;2;3;4;5;6]%Z 2 3 1 7) = Ok (Src [[1;2];[3;4];[5;6]]%Z 2) /\
  (* S,T,P: stride 3, third value dropped; 7 values are not a multiple of 3 *)
  load_source (XS true [1;2;3;4;5;6]%Z 3 3 0 2) = Ok (Src [[1;2];[4;5]]%Z 2) /\
  load_source (XS true [1;2;3;4;5;6;7]%Z 3 3 0 2) = Raise DaeMalformed /\
  (* a document: source 0 = positions, entry 1 = <vertices>, triangles reading VERTEX through it *)
  (exists p, load_prim KTri [XSrc (XS false [0;0;0; 1;0;0; 0;1;0]%Z 3 3 0 3); XVerts [(VPosition, 0)]]
               [(0, VERTEX, XRef 1)] None (SFlat [0;1;2]%N) = Ok p /\ p_nrows p = 1) /\
  load_prim KTri [XSrc (XS false [0;0;0; 1;0;0; 0;1;0]%Z 3 3 0 3); XVerts [(VPosition, 0)]]
               [(0, VERTEX, XRef 1)] None (SFlat [0;1;3]%N) = Raise DaeMalformed.
Proof. repeat split; try (eexists; split); vm_compute; reflexivity. Qed.

(* ---- Non-vacuity.  A layout with shared and distinct offsets, a gap (offset 2 unused),
   two texcoord sets and a tangent set. *)
Definition ex_v := Src [[0;0;0];[1;0;0];[0;1;0];[0;0;1]]%Z 3.
Definition ex_n := Src [[0;0;1];[0;1;0]]%Z 3.
Definition ex_t := Src [[0;0];[1;0];[0;1]]%Z 2.
Definition ex_ins := [Inp 0 VERTEX ex_v; Inp 1 NORMAL ex_n; Inp 0 TEXCOORD ex_t; Inp 3 TEXCOORD ex_t;
                      Inp 1 TEXTANGENT ex_n; Inp 2 COLOR ex_t].
Definition ex_flat : list N := [0;0;9;2; 1;1;9;0; 2;0;9;1;   2;1;9;1; 1;0;9;2; 0;1;9;0]%N.

Example C09_accepted_nonvacuous :
  exists p, construct KTri ex_ins (Some 1%N) (SFlat ex_flat) = Ok p /\ p_nrows p = 2 /\
            length (exposed p) = 5 /\
            option_map v_idx (p_vertex p) = Some [0;1;2;2;1;0]%N.
Proof. eexists. vm_compute. repeat split. Qed.

(* the hypotheses of the rejection theorems are met by concrete inputs, and the same layout is
   accepted when the defect is removed (so rejection is not "everything is rejected") *)
Example C09_out_of_range_nonvacuous :
  let bad := [0;0;9;2; 1;1;9;0; 2;0;9;1;   2;1;9;1; 1;0;9;2; 0;1;9;3]%N in   (* last corner, texcoord set 1: 3 >= 3 *)
  construct KTri ex_ins None (SFlat bad) = Raise DaeMalformed /\
  (exists inc j, In inc (exposed_inputs KTri ex_ins) /\
     j * nind_ins ex_ins + i_off (fst inc) < length bad /\
     (N.of_nat (s_len (i_src (fst inc))) <= nth (j * nind_ins ex_ins + i_off (fst inc)) bad 0)%N).
Proof.
  split; [vm_compute; reflexivity|].
  exists (Inp 3 TEXCOORD ex_t, 2), 5. vm_compute. repeat split; auto. discriminate.
Qed.

Example C09_far_out_of_range_first_corner :
  construct KLine [Inp 0 VERTEX ex_v; Inp 0 NORMAL ex_n] None (SFlat [2147483647; 0]%N) = Raise DaeMalformed.
Proof. vm_compute. reflexivity. Qed.

Example C09_polylist_nonvacuous :
  (exists p, construct KPolylist [Inp 0 VERTEX ex_v; Inp 1 NORMAL ex_n] None
               (SPolylist [0;0; 1;1; 2;0;  3;1; 0;0; 1;1; 2;0]%N [3; 4]) = Ok p /\ p_nrows p = 7) /\
  construct KPolylist [Inp 0 VERTEX ex_v; Inp 1 NORMAL ex_n] None
    (SPolylist [0;0; 1;1; 2;0;  3;1; 0;0; 1;1; 2;0]%N [3; 3]) = Raise DaeMalformed /\
  construct KPolylist [Inp 0 VERTEX ex_v; Inp 1 NORMAL ex_n] None
    (SPolylist [0;0; 1;1; 2;0;  3;1; 0;0; 1;1; 2]%N [3; 3]) = Raise DaeMalformed /\
  construct KPolygons [Inp 0 VERTEX ex_v; Inp 1 NORMAL ex_n] None
    (SPolygons [[0;0;1]; [1;2;0]]%N) = Raise DaeMalformed /\
  construct KTri [Inp 0 VERTEX ex_t] None (SFlat [0;1;2]%N) = Raise DaeMalformed /\
  float_source [1;2;3;4;5;6;7]%Z 3 = Raise DaeMalformed.
Proof. split; [eexists|]; vm_compute; repeat split. Qed.
