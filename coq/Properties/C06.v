(* C06 - the written file says what the model says.
   Statements only; proofs are in Proofs/Emit.v. *)
From Coq Require Import List Bool ZArith NArith.
From PC Require Import Base.Outcome Base.Atoms Base.Xml Model.Emit Proofs.Emit Model.Strips Model.SaveOnto Proofs.SaveOnto.
Import ListNotations.

(* per class: an independent reading of the emitted element recovers the content *)
Theorem C06_emit_read_source : forall arr s, read_source (emit_source arr s) = Some s.
Proof. exact read_emit_source. Qed.
Print Assumptions C06_emit_read_source.

Theorem C06_emit_read_prim : forall p, read_prim (emit_prim p) = Some p.
Proof. exact read_emit_prim. Qed.
Print Assumptions C06_emit_read_prim.

Theorem C06_emit_read_geometry : forall arr g, wf_geometry g -> read_geometry (emit_geometry arr g) = Some g.
Proof. exact read_emit_geometry. Qed.
Print Assumptions C06_emit_read_geometry.

Theorem C06_emit_read_transform : forall t, read_transform (emit_transform t) = Some t.
Proof. exact read_emit_transform. Qed.
Print Assumptions C06_emit_read_transform.

Theorem C06_emit_read_node : forall n, read_node (emit_node n) = Some n.
Proof. exact read_emit_node. Qed.
Print Assumptions C06_emit_read_node.

Theorem C06_emit_read_scene : forall s, wf_scene s -> read_scene (emit_scene s) = Some s.
Proof. exact read_emit_scene. Qed.
Print Assumptions C06_emit_read_scene.

Theorem C06_emit_read_light : forall l, wf_light l -> read_light (emit_light l) = Some l.
Proof. exact read_emit_light. Qed.
Print Assumptions C06_emit_read_light.

Theorem C06_emit_read_camera : forall c, wf_camera c -> read_camera (emit_camera c) = Some c.
Proof. exact read_emit_camera. Qed.
Print Assumptions C06_emit_read_camera.

Theorem C06_emit_read_material : forall m, read_material (emit_material m) = Some m.
Proof. exact read_emit_material. Qed.
Print Assumptions C06_emit_read_material.

(* ... and for the document (Stage 1 content; effects and images by id only) *)
Theorem C06_emit_read : forall arr d, wf_doc d -> read_doc (emit_doc arr d) = Some d.
Proof. exact read_emit_doc. Qed.
Print Assumptions C06_emit_read.

(* Geometry.save: in the written geometry a VERTEX input never names the POSITION source directly
   (it names <vertices>), every other input is untouched, and reading back through <vertices>
   recovers the model's primitive *)
Theorem C06_vertex_redirect : forall arr g p, wf_geometry g -> In p (g_prims g) ->
  (forall i, In i (p_inputs (redirect_prim (g_vid g) (g_vref g) p)) -> i_sem i = a_VERTEX -> i_src i = g_vref g -> g_vid g = g_vref g) /\
  deref_prim (g_vid g) (g_vref g) (redirect_prim (g_vid g) (g_vref g) p) = p /\
  exists g', read_geometry (emit_geometry arr g) = Some g' /\ In p (g_prims g').
Proof. exact vertex_redirect. Qed.
Print Assumptions C06_vertex_redirect.

Theorem C06_redirect_only_vertex : forall vid vref i,
  (i_sem i = a_VERTEX /\ i_src i = vref -> i_src (redirect vid vref i) = vid) /\
  (~ (i_sem i = a_VERTEX /\ i_src i = vref) -> redirect vid vref i = i) /\
  i_sem (redirect vid vref i) = i_sem i /\ i_off (redirect vid vref i) = i_off i /\ i_set (redirect vid vref i) = i_set i.
Proof. exact redirect_spec. Qed.
Print Assumptions C06_redirect_only_vertex.

(* _correctValInNode (optional parameters of lights, contributors, sampler filters): after the call
   an independent reader finds the child iff the value is not None, with the value's text; every
   other child is untouched (same elements, same order, same text) *)
Theorem C06_optional_children : forall t value after kids,
  (length (filter (is_tag ns t) kids) <= 1)%nat ->
  read_opt t (correct_val t value after kids) = value.
Proof. exact optional_child_value. Qed.
Print Assumptions C06_optional_children.

Theorem C06_optional_children_others : forall t value after kids t', t' <> t ->
  map xuid (filter (is_tag ns t') (correct_val t value after kids)) = map xuid (filter (is_tag ns t') kids) /\
  map xtext (filter (is_tag ns t') (correct_val t value after kids)) = map xtext (filter (is_tag ns t') kids).
Proof. exact optional_child_others. Qed.
Print Assumptions C06_optional_children_others.

(* a triangle set loaded from <tristrips>/<trifans> (its index is Model/Strips.load_expand of the <p>
   streams, C11's model of the loader) is written by TriangleSet._recreateXmlNode as <triangles> with
   the same material and inputs, the number of triangles, and one <p> holding the expanded index *)
Theorem C06_recreated_triangles : forall kd max_offset (ps : list toks) (ts : list (tri toks)) material inputs,
  load_expand kd max_offset ps = Ok ts ->
  exists p, read_prim (emit_prim (recreate_prim material inputs ts)) = Some p /\
            p_kind p = KTriangles /\ p_ps p = [flatten_tris ts] /\ p_count p = Z.of_nat (length ts) /\
            p_inputs p = inputs /\ p_material p = material /\ p_vcount p = None.
Proof. exact recreated_triangles. Qed.
Print Assumptions C06_recreated_triangles.

(* the managed libraries of the file hold exactly the emissions of the model's objects, in order *)
Theorem C06_managed_libraries_exact : forall arr d,
  lib_kids a_library_geometries (emit_doc arr d) = map (emit_geometry arr) (d_geometries d) /\
  lib_kids a_library_lights (emit_doc arr d) = map emit_light (d_lights d) /\
  lib_kids a_library_cameras (emit_doc arr d) = map emit_camera (d_cameras d) /\
  lib_kids a_library_images (emit_doc arr d) = map (emit_idonly a_image) (d_images d) /\
  lib_kids a_library_effects (emit_doc arr d) = map (emit_idonly a_effect) (d_effects d) /\
  lib_kids a_library_materials (emit_doc arr d) = map emit_material (d_materials d) /\
  lib_kids a_library_nodes (emit_doc arr d) = map emit_node (d_nodes d) /\
  lib_kids a_library_visual_scenes (emit_doc arr d) = map emit_scene (d_scenes d).
Proof. exact managed_libraries_exact. Qed.
Print Assumptions C06_managed_libraries_exact.

(* Non-vacuity: a document with a geometry whose normals reuse the position source (the sphere
   case), a nested node with all instance kinds and a material binding, lights with optional
   parameters, a camera, a default scene - it is well-formed and is read back. *)
Local Open Scope N_scope.
Definition ex_doc : doc :=
  let inp o s r st := {| i_off := o; i_sem := s; i_src := r; i_set := st |} in
  let g := {| g_id := AStr 1001; g_name := Some (AStr 1002);
              g_sources := [{| s_id := 1003; s_data := [TInt 0%Z; TInt 0%Z; TInt 1%Z; TNum 0; TInt 0%Z; TInt 0%Z]; s_comps := [a_X; a_Y; a_Z]; s_count := 6%Z; s_acount := 2%Z |}];
              g_vid := 1004; g_vref := 1003;
              g_prims := [{| p_kind := KTriangles; p_material := Some (AStr 1005); p_count := 1%Z;
                             p_inputs := [inp 0%Z a_VERTEX 1003%N None; inp 0%Z a_NORMAL 1003%N None; inp 1%Z a_TEXCOORD 1003%N (Some (AInt 0%Z))];
                             p_vcount := None; p_ps := [[TInt 0%Z; TInt 1%Z; TInt 1%Z; TInt 0%Z; TInt 0%Z; TInt 1%Z]] |};
                          {| p_kind := KPolylist; p_material := None; p_count := 1%Z; p_inputs := [inp 0%Z a_VERTEX 1003%N None];
                             p_vcount := Some [TInt 3%Z]; p_ps := [[TInt 0%Z; TInt 1%Z; TInt 0%Z]] |}];
              g_double_sided := true |} in
  let n := Node (Some (AStr 1010)) (Some (AStr 1011))
             [{| t_kind := TTranslate; t_text := [TInt 1%Z; TInt 2%Z; TInt 3%Z] |}; {| t_kind := TRotate; t_text := [TInt 0%Z; TInt 0%Z; TInt 1%Z; TNum 1] |}]
             [Inst IGeometry 1001 [{| im_symbol := AStr 1005; im_target := 1006;
                                     im_inputs := [{| b_sem := AStr 1007; b_isem := AStr a_TEXCOORD; b_iset := Some (AInt 0%Z) |}] |}];
              Inst ILight 1008 []; Inst ICamera 1009 []; Inst INode 1012 [];
              Node None None [] [Node (Some (AStr 1013)) None [] []]] in
  {| d_geometries := [g];
     d_lights := [{| l_id := AStr 1008; l_kind := LPoint; l_color := [TInt 1%Z; TInt 0%Z; TInt 0%Z];
                     l_params := [(a_constant_attenuation, [TNum 2]); (a_zfar, [TNum 3])] |};
                  {| l_id := AStr 1014; l_kind := LAmbient; l_color := [TNum 4; TNum 4; TNum 4; TInt 1%Z]; l_params := [] |}];
     d_cameras := [{| c_id := AStr 1009; c_kind := CPerspective; c_params := [(a_xfov, [TNum 5]); (a_znear, [TNum 6]); (a_zfar, [TNum 7])] |}];
     d_images := []; d_effects := [AStr 1015];
     d_materials := [{| m_id := AStr 1006; m_name := AStr 1016; m_effect := 1015 |}];
     d_nodes := [Node (Some (AStr 1012)) (Some (AStr 1012)) [{| t_kind := TMatrix; t_text := [TNum 8] |}] []];
     d_scenes := [{| sc_id := AStr 1017; sc_nodes := [n] |}]; d_scene := Some 1017 |}.

Example C06_doc_nonvacuous : read_doc (emit_doc (fun a => (a + 500)%N) ex_doc) = Some ex_doc.
Proof. vm_compute. reflexivity. Qed.

Example C06_doc_wf : wf_doc ex_doc.
Proof.
  split; simpl.
  - repeat constructor; unfold wf_input; simpl; intros H1 H2; try discriminate.
  - repeat constructor.
  - repeat constructor.
  - repeat constructor.
Qed.

(* the sphere case: NORMAL keeps naming the source, only VERTEX goes through <vertices> *)
Example C06_sphere_normals_kept :
  map i_src (p_inputs (redirect_prim 1004 1003
     {| p_kind := KTriangles; p_material := None; p_count := 1%Z;
        p_inputs := [{| i_off := 0%Z; i_sem := a_VERTEX; i_src := 1003; i_set := None |};
                     {| i_off := 0%Z; i_sem := a_NORMAL; i_src := 1003; i_set := None |}];
        p_vcount := None; p_ps := [] |})) = [1004; 1003].
Proof. vm_compute. reflexivity. Qed.
