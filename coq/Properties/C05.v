(* C05 - the loaded model says what the file says.  Statements only; proofs in Proofs/LoadPrim.v
   and Proofs/LoadDoc.v.  MODEL = the loader's algorithms (Model/LoadPrim.v, Model/LoadDoc.v),
   SPEC = direct indexing / per-semantic input lists / the documented normalisations. *)
From Coq Require Import List Bool ZArith NArith Lia.
From PC Require Import Base.Atoms Base.Xml Base.Outcome Base.Py Model.LoadPrim Model.Namespace Model.LoadDoc
                       Proofs.LoadPrim Proofs.LoadPrimViews Proofs.LoadPrimRefine Proofs.LoadDoc Proofs.LoadFlat Proofs.LoadGeom Proofs.LoadDocRefine Proofs.LoadSkin.
Import ListNotations.
Local Open Scope nat_scope.

(* Every exposed index array is the direct-indexing reading of the flat stream, for every input
   layout: whatever the offset o of the input (any order, shared, gapped: only o < nindices matters)
   the constructor's reshape + column selection gives  view[j] = flat[j * nindices + o], and it
   succeeds exactly when the stream is a whole number of rows. *)
Theorem C05_index_views : forall nind o (flat : list Z),
  o < nind ->
  (forall rows, reshape nind flat = Some rows ->
      col o rows = spec_view nind o flat /\ length rows = length flat / nind /\
      forall j, j < length rows -> nth j (col o rows) 0%Z = nth (j * nind + o) flat 0%Z) /\
  (reshape nind flat = None <-> length flat mod nind <> 0).
Proof.
  intros nind o flat Ho. split.
  - intros rows H. destruct (reshape_col_is_direct _ _ _ _ H Ho) as [E L]. repeat split; try assumption.
    intros j Hj. rewrite E. apply nth_spec_view. now rewrite <- L.
  - rewrite reshape_none. split; [intros [H|H]; [lia|exact H] | intro H; now right].
Qed.
Print Assumptions C05_index_views.

(* strips and fans: each <p> is reshaped, its corner rows gathered, and the constructor reshapes the
   result again; what an input at offset o then sees is read directly from that <p> *)
Theorem C05_index_views_strips_fans : forall nind o (p : list Z) rows (strip : bool),
  reshape nind p = Some rows -> o < nind ->
  let cs := if strip then strip_corners (length rows) else fan_corners (length rows) in
  exists rows', reshape nind (gather rows cs) = Some rows' /\
                col o rows' = map (fun c => nth (c * nind + o) p 0%Z) cs.
Proof.
  intros nind o p rows strip H Ho cs. apply gather_col; try assumption.
  subst cs. destruct strip; [apply strip_corners_in_range | apply fan_corners_in_range].
Qed.
Print Assumptions C05_index_views_strips_fans.

(* several <p> (polygons, expanded strips): the rows of the concatenation are the rows of the pieces,
   so the view of the whole is the concatenation of the views of the pieces *)
Theorem C05_index_views_concat : forall nind o (a b : list Z) ra rb,
  reshape nind a = Some ra -> reshape nind b = Some rb ->
  reshape nind (a ++ b) = Some (ra ++ rb) /\ col o (ra ++ rb) = col o ra ++ col o rb.
Proof. intros. split; [now apply reshape_app | apply col_app]. Qed.
Print Assumptions C05_index_views_concat.

(* What the constructors expose, for EVERY input table [ins] (any order, shared / gapped offsets,
   several sets) and flat index: nindices = max offset + 1; with no rows every view is absent;
   otherwise positions / normals come from the FIRST VERTEX / NORMAL input, there is one texcoord
   view per TEXCOORD input in order (tangent / binormal views for triangle sets only), and each view
   is (that input's source, the direct reading  flat[j * nindices + offset]  of the stream). *)
Theorem C05_primitive_views : forall k ins flat vc pv,
  construct k ins flat vc = Ok pv ->
  let nind := S (max_off ins) in
  let nonempty := negb (Nat.eqb (length flat / nind) 0) in
  let first sem := if nonempty then option_map (direct nind flat) (hd_error (bucket sem ins)) else None in
  let every sem := if nonempty then map (direct nind flat) (bucket sem ins) else [] in
  pv_nind pv = nind /\
  length flat = pv_count pv * corners_per k * nind /\
  pv_table pv = map (fun s => bucket s ins) known_sems /\
  pv_vertex pv = first a_VERTEX /\
  pv_normal pv = first a_NORMAL /\
  pv_tex pv = every a_TEXCOORD /\
  pv_textan pv = (if is_tri k then every a_TEXTANGENT else []) /\
  pv_texbin pv = (if is_tri k then every a_TEXBINORMAL else []) /\
  pv_poly pv = option_map (fun v => (v, poly_starts v, poly_ends v)) vc /\
  (forall v, vc = Some v -> sumZ v = Z.of_nat (length flat / nind)).
Proof. exact construct_views. Qed.
Print Assumptions C05_primitive_views.

(* <triangles>, <lines>, <polylist>: the loader hands the constructor the resolved inputs of
   C05_vertices_expansion and the first <p> as it is written *)
Theorem C05_single_p_loaders : forall sc k inputs vcount p rest pv,
  k = KTriangles \/ k = KLines \/ k = KPolylist ->
  load_primitive sc k inputs vcount (p :: rest) = Ok pv ->
  exists l flat vc,
    get_inputs sc inputs = Ok l /\ parse_index p = Some flat /\
    (k <> KPolylist -> vc = None) /\
    (k = KPolylist -> exists t v, vcount = Some t /\ parse_index t = Some v /\ vc = Some v) /\
    construct k l flat vc = Ok pv /\
    (forall o, spec_index (S (max_off l)) o (flat :: nil) (spec_corners k (S (max_off l)) (flat :: nil))
               = spec_view (S (max_off l)) o flat).
Proof.
  intros sc k inputs vcount p rest pv Hk H.
  destruct (load_primitive_single _ _ _ _ _ _ _ Hk H) as (l & flat & vc & A & B & C & D & E).
  exists l, flat, vc. repeat split; try assumption. intro o. now apply spec_index_single.
Qed.
Print Assumptions C05_single_p_loaders.

(* <tristrips>, <trifans>: the flat index handed to the constructor is the concatenation of the
   expanded <p>; what an input at offset o reads of it is, <p> by <p>, the corner rows of the strip /
   fan triangles read directly from that <p> (the SPEC's spec_corners / spec_index) *)
Theorem C05_strips_fans_views : forall k nind o ps flat,
  k = KStrips \/ k = KFans -> o < nind -> load_flat k nind ps = Ok flat ->
  exists pl, parse_all ps = Some pl /\ Forall (fun p => length p mod nind = 0) pl /\
             spec_view nind o flat = spec_index nind o pl (spec_corners k nind pl).
Proof.
  intros k nind o ps flat Hk Ho H. destruct (load_flat_strips _ _ _ _ Hk H) as (pl & PA & F & ->).
  exists pl. repeat split; try assumption. rewrite spec_index_strips by exact Hk. now apply strips_view.
Qed.
Print Assumptions C05_strips_fans_views.

(* <polygons>: the <p> elements are concatenated; vcounts are their row counts *)
Theorem C05_polygons_views : forall nind o ps flat,
  o < nind -> load_flat KPolygons nind ps = Ok flat ->
  exists pl, parse_all ps = Some pl /\ flat = concat pl /\
             (Forall (fun p => length p mod nind = 0) pl ->
              spec_view nind o flat = spec_index nind o pl (spec_corners KPolygons nind pl)).
Proof.
  intros nind o ps flat Ho H. destruct (load_flat_polygons _ _ _ H) as (pl & PA & ->).
  exists pl. repeat split; try assumption. intro F. symmetry. now apply spec_index_polygons.
Qed.
Print Assumptions C05_polygons_views.

(* All of the above composed, for the six primitive elements and every input layout: whenever
   X.load succeeds, the declarative reading of the same element ([read_primitive]: per-semantic input
   lists of the file, nindices = largest offset + 1, every view read by direct indexing of the <p>
   elements as written, vcounts / starts / ends as prefix sums) is defined and is the primitive the
   loader built (up to the record of its checkSource calls). *)
Theorem C05_primitive_load_is_read : forall sc k inputs vcount ps pv,
  load_primitive sc k inputs vcount ps = Ok pv ->
  read_primitive sc k inputs vcount ps = Some (erase_checks pv).
Proof. exact load_primitive_is_read. Qed.
Print Assumptions C05_primitive_load_is_read.

(* polylist: ends and starts are the prefix sums of the vertex counts *)
Theorem C05_polylist_ranges : forall vc i, i < length vc ->
  nth i (poly_ends vc) 0%Z = sumZ (firstn (S i) vc) /\ nth i (poly_starts vc) 0%Z = sumZ (firstn i vc).
Proof. intros vc i H. split; [apply poly_ends_spec | apply poly_starts_spec]; exact H. Qed.
Print Assumptions C05_polylist_ranges.

(* <vertices> expansion: for every semantic, the inputs the loader ends up with are the
   primitive-level inputs of that semantic (document order) followed by the <vertices>-level ones
   (POSITION as VERTEX) at the offset and set of the VERTEX input that names the <vertices> *)
Theorem C05_vertices_expansion : forall sc ins l sem,
  get_inputs sc ins = Ok l -> map forget (bucket sem l) = spec_bucket sc ins sem.
Proof. exact get_inputs_buckets. Qed.
Print Assumptions C05_vertices_expansion.

(* sources: exactly the documented normalisations - (U,V) is read as (S,T); (S,T,P) as (S,T) with
   every third value dropped; NaN is read as 0 - and no other change *)
Theorem C05_source_normalisations : forall comps data c d,
  normalise_source comps data = Ok (c, d) ->
  c = spec_comps comps /\ d = spec_data comps data /\
  (comps_eqb comps [nm a_U; nm a_V] = false -> comps_eqb comps [nm a_S; nm a_T; nm a_P] = false ->
     c = comps /\ d = map nan0 data /\ length d = length data /\
     forall i, nth i data 0%N <> nan_class -> nth i d 0%N = nth i data 0%N).
Proof.
  intros comps data c d H. destruct (normalise_source_spec _ _ _ _ H) as [-> ->].
  split; [reflexivity|]. split; [reflexivity|]. intros UV STP.
  unfold spec_comps, spec_data. rewrite UV, STP. split; [reflexivity|]. split; [reflexivity|].
  split; [apply map_length|]. intros i Hi.
  destruct (Nat.lt_ge_cases i (length data)) as [L|L].
  - rewrite (nth_map_in nan0 0%N 0%N) by exact L. unfold nan0.
    destruct (N.eqb (nth i data 0%N) nan_class) eqn:E; [apply N.eqb_eq in E; contradiction|reflexivity].
  - rewrite !nth_overflow; [reflexivity|exact L|now rewrite map_length].
Qed.
Print Assumptions C05_source_normalisations.

(* a <source> with a float_array: what FloatSource.load builds (tokens -> float32 classes, NaN -> 0,
   param names with the two renamings, third texcoord column dropped, rows = values / components)
   is the declarative reading of the element *)
Theorem C05_source_load_is_read : forall numtab e arr s,
  efind a_float_array e = Some arr -> load_float_source numtab e arr = Ok s -> read_float_source numtab e = Some s.
Proof. exact load_float_source_is_read. Qed.
Print Assumptions C05_source_load_is_read.

(* <geometry>: Geometry.load (sources, the <vertices> dict, the primitives in document order) refines
   the declarative reading of the element.  The only thing it changes that the file does not say is
   checkSource renaming the components of a source after its use; [erase_geom g srcs] is g with the
   sources as FloatSource.load left them - when the param names of the file fit their uses (no
   renaming: g_sources g = srcs) nothing but the record of the checkSource calls differs. *)
Theorem C05_geometry_load_is_read : forall numtab e g,
  load_geometry numtab e = Ok g ->
  exists srcs, omapM (load_source numtab) (efindall_path [a_mesh; a_source] e) = Ok srcs /\
               read_geometry numtab e = Some (erase_geom g srcs) /\
               (g_sources g = srcs -> read_geometry numtab e = Some (erase_geom g (g_sources g))).
Proof.
  intros numtab e g H. destruct (load_geometry_is_read _ _ _ H) as (srcs & S & R).
  exists srcs. repeat split; try assumption. intros <-. exact R.
Qed.
Print Assumptions C05_geometry_load_is_read.

(* lights: whenever Light.load and the class loader succeed, the light is the one the file describes -
   the kind is the element under technique_common, the colour its <color>, every parameter of the kind
   (point: constant / linear / quadratic attenuation, zfar; spot: the three attenuations, falloff angle and
   exponent; none for ambient and directional) either the number of the element of that name or absent *)
Theorem C05_light_load_is_read : forall numtab e v,
  load_light_t numtab e = Ok v -> read_light numtab e = Some v.
Proof. exact load_light_is_read. Qed.
Print Assumptions C05_light_load_is_read.

(* asset: titles, contributor fields, unit and dates are exposed as the text of the file (model = reading:
   find the element, take its text); the one normalisation is the up axis, which is the axis the file names
   and Y_UP when it names none (or something else) *)
Theorem C05_asset_up_axis : forall o, up_axis_of o = spec_up_axis (text_of o).
Proof. exact up_axis_spec. Qed.
Print Assumptions C05_asset_up_axis.

(* skins: the <v> stream is cut into one block of <vcount>[i] rows per vertex; what Skin exposes as
   joint_index[i][j] / weight_index[i][j] is the direct reading  v[(vcount[0] + .. + vcount[i-1] + j) * nindices + offset] *)
Theorem C05_skin_index_views : forall nind vc idx blocks off,
  nind <> 0 -> off < nind -> skin_split nind vc idx = Ok blocks ->
  length blocks = length vc /\
  forall i j, i < length vc -> j < Z.to_nat (nth i vc 0%Z) ->
    nth j (col off (nth i blocks [])) 0%Z = spec_skin_index nind off vc idx i j.
Proof.
  intros nind vc idx blocks off Hn Ho H. split; [apply (skin_split_spec _ _ _ _ Hn H)|].
  now apply skin_index_views.
Qed.
Print Assumptions C05_skin_index_views.

(* flat class loaders.  Cameras: x / y / znear / zfar as given, the aspect ratio dropped exactly when
   all three of x, y and aspect ratio are given, rejected (DaeMalformed) exactly when neither x nor y
   is given.  References (material -> effect, default scene -> visual scene, instance_* -> library
   object): "#id" resolves to the LAST object of the library carrying that id (IndexedList.get). *)
Theorem C05_flat_loaders :
  (forall c, match camera_ctor c with
             | Ok c' => c_x c' = c_x c /\ c_y c' = c_y c /\ c_near c' = c_near c /\ c_far c' = c_far c /\
                        c_ar c' = (if all_three c then None else c_ar c) /\ (c_x c <> None \/ c_y c <> None)
             | Raise e => e = DaeMalformed /\ c_x c = None /\ c_y c = None
             end) /\
  (forall l o u, resolve_url l o = Ok u ->
     exists a pre post, o = Some (ARef true a) /\ l = pre ++ (Some (AStr a), u) :: post /\ lib_get post a = None).
Proof.
  split; [exact camera_ctor_spec|].
  intros l o u H. destruct (resolve_url_spec _ _ _ H) as (a & -> & G).
  destruct (proj1 (lib_get_spec l a u) G) as (pre & post & E & N). exists a, pre, post. auto.
Qed.
Print Assumptions C05_flat_loaders.

(* colours (effect shading parameters given as <color>): padded to RGBA - missing R, G, B read as 0,
   a missing A as 1 - and otherwise untouched *)
Theorem C05_colour_padding : forall c,
  pad_color c = spec_color c /\
  (length c <= 4 -> length (pad_color c) = 4) /\ (4 <= length c -> pad_color c = c) /\
  firstn (length c) (pad_color c) = c.
Proof. intro c. split; [apply pad_color_spec | apply pad_color_props]. Qed.
Print Assumptions C05_colour_padding.

(* nodes: Node.load's dispatching loop yields the node the file describes (ids, names defaulting to
   the id, transforms in order with kind and parameters, children in order), at every depth:
   [read_node] is the declarative reading (filter the children by tag, map) *)
Theorem C05_node_load : forall en e v, load_node en e = Ok v -> read_node en e = Some v.
Proof. exact load_node_is_read_node. Qed.
Print Assumptions C05_node_load.

Theorem C05_node_load_explicit : forall en u o h a t kids v,
  load_node en (ET u o h a t kids) = Ok v ->
  exists ts cs,
    v = NNode u (attr a_id a) (match attr a_name a with Some n => Some n | None => attr a_id a end) ts cs /\
    map Some ts = spec_ts en kids /\ map Some cs = spec_cs en kids /\
    (forall k w, In k kids -> load_node en k = Ok w -> read_node en k = Some w).
Proof. exact load_node_explicit. Qed.
Print Assumptions C05_node_load_explicit.

(* THE WHOLE DOCUMENT.  [load_doc] is the model of Collada.__init__ (images, effects, materials,
   animation and controller sources, geometries, lights, cameras, library nodes with deferred
   instance_node, visual scenes, default scene); [read_doc] walks the same libraries with the
   declarative readings of geometry and nodes.  If no checkSource call renames a source (the param
   names of every mesh fit their uses - the one thing the loader changes that the file does not say),
   then whenever the load succeeds the declarative reading gives the same view. *)
Theorem C05_load_is_read : forall numtab root v,
  Forall (names_fit numtab) (geometry_elems root) ->
  load_doc numtab root = Ok v -> read_doc numtab root = Ok v.
Proof. exact load_doc_is_read. Qed.
Print Assumptions C05_load_is_read.

(* the same under a guard that is a computation ([geom_fits]: the sources Geometry.load ends with equal the
   sources FloatSource.load produced); Check/C05.v evaluates it on every case *)
Theorem C05_load_is_read_guard : forall numtab root v,
  forallb (geom_fits numtab) (geometry_elems root) = true ->
  load_doc numtab root = Ok v -> read_doc numtab root = Ok v.
Proof. exact load_doc_is_read_guard. Qed.
Print Assumptions C05_load_is_read_guard.

(* when checkSource renames: one call rewrites exactly the sources it is applied to (same uid) to the expected
   component names; the source list is unchanged iff those sources carried the expected names already *)
Theorem C05_checksource_renaming : forall srcs u comps mx srcs',
  apply_check srcs (u, comps, mx) = Ok srcs' ->
  srcs' = map (renamed u (map nm comps)) srcs /\
  (srcs' = srcs <-> forall s, In s srcs -> s_uid s = u -> s_comps s = map nm comps).
Proof. exact apply_check_spec. Qed.
Print Assumptions C05_checksource_renaming.

(* ---- non-vacuity *)

(* a primitive whose inputs share and skip offsets: VERTEX (through <vertices>, which also carries a
   NORMAL) at offset 2, a primitive-level NORMAL at offset 0, two TEXCOORD sets sharing offset 4;
   offsets 1 and 3 are gaps; nindices = 5 *)
Example C05_layout_example :
  let sc : scope := [(10, ESrc 100); (11, ESrc 101); (12, ESrc 102); (13, ESrc 103);
                     (20, EVerts [(a_NORMAL, Some 11); (a_POSITION, Some 10)])]%N in
  let ins := [mkInput 4 a_TEXCOORD (ARef true 12%N) (Some (AInt 0)); mkInput 2 a_VERTEX (ARef true 20%N) None;
              mkInput 0 a_NORMAL (ARef true 13%N) None; mkInput 4 a_TEXCOORD (ARef true 12%N) (Some (AInt 1))] in
  let flat := [7; 0; 1; 0; 3;   8; 0; 2; 0; 4;   9; 0; 0; 0; 5]%Z in
  match get_inputs sc ins with
  | Ok l =>
      map r_uid (bucket a_VERTEX l) = [100%N] /\ map r_uid (bucket a_NORMAL l) = [103; 101]%N /\
      map r_off (bucket a_NORMAL l) = [0; 2] /\ length (bucket a_TEXCOORD l) = 2 /\
      match construct KTriangles l flat None with
      | Ok pv => pv_nind pv = 5 /\ pv_count pv = 1 /\ pv_vertex pv = Some (100%N, [1; 2; 0]%Z) /\
                 pv_normal pv = Some (103%N, [7; 8; 9]%Z) /\ map snd (pv_tex pv) = [[3; 4; 5]; [3; 4; 5]]%Z
      | Raise _ => False
      end
  | Raise _ => False
  end.
Proof. vm_compute. repeat split; reflexivity. Qed.

Example C05_strip_example :
  (* a strip of 5 vertices with two inputs (nindices = 2): triangles (0,1,2) (2,3,4) then (2,1,3) *)
  let p := [0; 10; 1; 11; 2; 12; 3; 13; 4; 14]%Z in
  match reshape 2 p with
  | Some rows => match reshape 2 (gather rows (strip_corners (length rows))) with
                 | Some rows' => col 0 rows' = [0; 1; 2; 2; 3; 4; 2; 1; 3]%Z /\ col 1 rows' = [10; 11; 12; 12; 13; 14; 12; 11; 13]%Z
                 | None => False end
  | None => False
  end.
Proof. vm_compute. split; reflexivity. Qed.

Example C05_source_example :
  normalise_source [nm a_S; nm a_T; nm a_P] [2; 1; 4; 6; 8; 1]%N = Ok ([nm a_S; nm a_T], [2; 0; 6; 8]%N) /\
  normalise_source [nm a_U; nm a_V] [2; 1]%N = Ok ([nm a_S; nm a_T], [2; 0]%N) /\
  normalise_source [nm a_X; nm a_Y; nm a_Z] [2; 1; 4]%N = Ok ([nm a_X; nm a_Y; nm a_Z], [2; 0; 4]%N).
Proof. vm_compute. repeat split; reflexivity. Qed.

(* non-vacuity of C05_primitive_load_is_read: a two-<p> tristrips with a vertices-level NORMAL and a
   gap in the offsets loads, and the declarative reading gives the same five triangles *)
Example C05_refinement_example :
  let sc : scope := [(10, ESrc 100); (11, ESrc 101); (20, EVerts [(a_POSITION, Some 10); (a_NORMAL, Some 11)])]%N in
  let ins := [mkInput 2 a_VERTEX (ARef true 20%N) None; mkInput 0 a_TEXCOORD (ARef true 11%N) (Some (AInt 0))] in
  let p1 := Some (map TInt [5; 0; 0;  6; 0; 1;  7; 0; 2;  8; 0; 3;  9; 0; 4]%Z) in
  let p2 := Some (map TInt [1; 0; 4;  2; 0; 3;  3; 0; 2;  4; 0; 1]%Z) in
  match load_primitive sc KStrips ins None [p1; p2] with
  | Ok pv => pv_count pv = 5 /\ pv_nind pv = 3 /\
             option_map snd (pv_vertex pv) = Some [0; 1; 2;  2; 3; 4;  2; 1; 3;   4; 3; 2;  2; 3; 1]%Z /\
             option_map fst (pv_normal pv) = Some 101%N /\
             read_primitive sc KStrips ins None [p1; p2] = Some (erase_checks pv)
  | Raise _ => False
  end.
Proof. vm_compute. repeat split; reflexivity. Qed.

Local Open Scope N_scope.

(* non-vacuity of C05_load_is_read: a document with one mesh (positions X,Y,Z through <vertices>, one
   triangle) and a scene instantiating it: the names fit, the document loads, the reading agrees *)
Definition c05_doc : et :=
  let E u t a tx k := ET u (Some t) (Some t) a tx k in
  E 1 a_COLLADA [] None
    [E 2 a_library_geometries [] None
       [E 3 a_geometry [(a_id, AStr 1000)] None
          [E 4 a_mesh [] None
             [E 5 a_source [(a_id, AStr 1001)] None
                [E 6 a_float_array [] (Some (map TInt [0; 0; 0; 1; 0; 0; 0; 1; 0]%Z)) [];
                 E 7 a_technique_common [] None
                   [E 8 a_accessor [] None
                      [E 9 a_param [(a_name, AStr a_X)] None []; E 10 a_param [(a_name, AStr a_Y)] None [];
                       E 11 a_param [(a_name, AStr a_Z)] None []]]];
              E 12 a_vertices [(a_id, AStr 1002)] None
                [E 13 a_input [(a_semantic, AStr a_POSITION); (a_source, ARef true 1001)] None []];
              E 14 a_triangles [(a_count, AInt 1)] None
                [E 15 a_input [(a_offset, AInt 0); (a_semantic, AStr a_VERTEX); (a_source, ARef true 1002)] None [];
                 E 16 a_p [] (Some (map TInt [0; 1; 2]%Z)) []]]]];
     E 17 a_library_visual_scenes [] None
       [E 18 a_visual_scene [(a_id, AStr 1003)] None
          [E 19 a_node [(a_id, AStr 1004)] None
             [E 20 a_translate [] (Some (map TInt [1; 2; 3]%Z)) [];
              E 21 a_instance_geometry [(a_url, ARef true 1000)] None []]]];
     E 22 a_scene [] None [E 23 a_instance_visual_scene [(a_url, ARef true 1003)] None []]]%N.

Example C05_load_is_read_nonvacuous :
  Forall (names_fit []) (geometry_elems c05_doc) /\
  exists v, load_doc [] c05_doc = Ok v /\ read_doc [] c05_doc = Ok v.
Proof.
  split.
  - assert (E : geometry_elems c05_doc = [nth 0 (ekids (nth 0 (ekids c05_doc) c05_doc)) c05_doc]) by reflexivity.
    rewrite E. constructor; [|constructor].
    intros g srcs H S. vm_compute in H, S. injection H as <-. injection S as <-. reflexivity.
  - eexists. split; vm_compute; reflexivity.
Qed.

(* non-vacuity of C05_skin_index_views: three vertices with 2, 0 and 1 influences, (joint, weight) pairs *)
Example C05_skin_example :
  match skin_split 2 [2; 0; 1]%Z [5; 0; 6; 1; 7; 2]%Z with
  | Ok blocks => map (col 0) blocks = [[5; 6]; []; [7]]%Z /\ map (col 1) blocks = [[0; 1]; []; [2]]%Z /\
                 spec_skin_index 2 0 [2; 0; 1]%Z [5; 0; 6; 1; 7; 2]%Z 2 0 = 7%Z
  | Raise _ => False
  end.
Proof. vm_compute. repeat split; reflexivity. Qed.

(* a node without a name, holding all five transforms interleaved with a nested node, an
   instance_geometry with a bound material, an extra and an <asset> (skipped) *)
Example C05_node_example :
  let num := [] : list N in
  let en := mkEnv num [(Some (AStr 1000), 50)] [] [] [] [(Some (AStr 1001), 60)] [] [] in
  let leaf u t toks := ET u (Some t) (Some t) [] (Some (map TInt toks)) [] in
  let e :=
    ET 1 (Some a_node) (Some a_node) [(a_id, AStr 1002)] None
      [leaf 2 a_translate [1; 2; 3]%Z;
       ET 3 (Some a_node) (Some a_node) [(a_id, AStr 1003); (a_name, AStr 1004)] None
          [leaf 4 a_rotate [0; 0; 1; 90]%Z; ET 5 (Some a_extra) (Some a_extra) [] None []];
       leaf 6 a_scale [2; 2; 2]%Z;
       ET 7 (Some a_instance_geometry) (Some a_instance_geometry) [(a_url, ARef true 1000)] None
          [ET 8 (Some a_bind_material) None [] None
             [ET 9 (Some a_technique_common) None [] None
                [ET 10 (Some a_instance_material) None [(a_symbol, AStr 1005); (a_target, ARef true 1001)] None
                   [ET 11 (Some a_bind_vertex_input) None [(a_semantic, AStr 1006); (a_input_semantic, AStr a_TEXCOORD); (a_input_set, AInt 0)] None []]]]];
       ET 12 (Some a_asset) None [] None [];
       leaf 13 a_lookat [1; 2; 3; 0; 0; 0; 0; 1; 0]%Z;
       leaf 14 a_matrix [1; 0; 0; 0; 0; 1; 0; 0; 0; 0; 1; 0; 0; 0; 0; 1]%Z] in
  exists ts inner,
    load_node en e = Ok (NNode 1 (Some (AStr 1002)) (Some (AStr 1002)) ts
                          [NNode 3 (Some (AStr 1003)) (Some (AStr 1004)) inner [NExtra 5];
                           NRef a_instance_geometry 7 50 [(10, Some (AStr 1005), 60, [(Some (AStr 1006), Some (AStr a_TEXCOORD), Some (AInt 0))])]]) /\
    map (fun t => fst (fst t)) ts = [a_translate; a_scale; a_lookat; a_matrix] /\
    map (fun t => fst (fst t)) inner = [a_rotate] /\
    read_node en e = match load_node en e with Ok v => Some v | Raise _ => None end.
Proof. do 2 eexists. vm_compute. repeat split; reflexivity. Qed.

(* cameras: the aspect ratio is dropped exactly when all three parameters are given (modelled in
   load_camera; tied to the code by the correspondence and the direct oracle, no general theorem) *)
Example C05_camera_example :
  let f u t z := ET u (Some t) None [] (Some [TInt (Z.of_N z)]) [] in
  let cam kids := ET 1 (Some a_camera) None [(a_id, AStr 1000)] None
                    [ET 2 (Some a_optics) None [] None [ET 3 (Some a_technique_common) None [] None
                       [ET 4 (Some a_perspective) None [] None kids]]] in
  load_camera [] (cam [f 5 a_xfov 45; f 6 a_yfov 30; f 7 a_aspect_ratio 2; f 8 a_znear 1; f 9 a_zfar 100]) =
    Ok (Vl [Vn 1; Vl [Vn 0; Vn 1000]; Vn a_perspective; Vn 90; Vn 60; Vnone; Vn 2; Vn 200]) /\
  load_camera [] (cam [f 5 a_xfov 45; f 7 a_aspect_ratio 2; f 8 a_znear 1; f 9 a_zfar 100]) =
    Ok (Vl [Vn 1; Vl [Vn 0; Vn 1000]; Vn a_perspective; Vn 90; Vnone; Vn 4; Vn 2; Vn 200]).
Proof. vm_compute. split; reflexivity. Qed.
