(* C03 - saving is idempotent, non-destructive and failure-safe.
   Statements only; proofs are in Proofs/Indent.v and Proofs/SaveState.v.
   MODEL: Model/Indent.v (xmlutil.indent on the whitespace skeleton of a tree) and
   Model/SaveState.v (Collada.save / write at the granularity of the root's children). *)
From Coq Require Import List Bool Arith NArith.
From PC Require Import Base.Atoms Base.Outcome Model.Indent Proofs.Indent Model.SaveState Proofs.SaveState.
From PC Require Import Model.Purity Proofs.Purity Proofs.SaveQueries Proofs.WriteBytes.
From PC Require Import Base.Xml Model.Emit Proofs.Emit Proofs.EmitSave.
Import ListNotations.

(* ---- xmlutil.indent *)

Theorem C03_indent_idempotent : forall level t, indent level (indent level t) = indent level t.
Proof. exact indent_idempotent. Qed.
Print Assumptions C03_indent_idempotent.

(* indent rewrites nothing but blank/absent slots: the stripped tree (labels, shape, non-blank
   text and tails, leaf texts) is the same before and after, and so is the sequence of labels
   and non-blank strings *)
Theorem C03_indent_only_whitespace : forall level t,
  strip level (indent level t) = strip level t /\ texts (indent level t) = texts t.
Proof. intros level t. split; [apply strip_indent|apply indent_texts]. Qed.
Print Assumptions C03_indent_only_whitespace.

(* what indent writes depends on depth and position alone: two trees that agree once
   stripped are indented to the same tree (this is what lets Model/SaveState.v take the
   bytes of a write to be a function of the tree's content) *)
Theorem C03_indent_canonical : forall level t1 t2,
  strip level t1 = strip level t2 -> indent level t1 = indent level t2.
Proof. exact indent_canonical. Qed.
Print Assumptions C03_indent_canonical.

(* ---- Collada.save

   Hypotheses of the theorems below.  [wf_libs]: the tags of the `libraries` list are distinct
   and none is asset or scene - a fact about the constant list in save(), proved for every
   model over the nine managed tags (C03_managed_tags_wf).  [single_asset]: the root has at
   most one <asset> child.  This one is really needed: see C03_two_assets_refuted.  Nothing is
   assumed about repeated libraries or <scene> elements: save() removes the former (modelled
   by [dedupe]) and only ever touches the first of the latter. *)

Theorem C03_managed_tags_wf : forall m, map ltag (mlibs m) = managed_tags -> wf_libs m.
Proof.
  intros m E. unfold wf_libs. rewrite E. split; [|split].
  - apply nodup_b_ok. vm_compute. reflexivity.
  - vm_compute. intuition discriminate.
  - vm_compute. intuition discriminate.
Qed.
Print Assumptions C03_managed_tags_wf.

(* saving - complete or interrupted, in any fault context - never changes what the user can
   see of the model (everything except the identity of recreated .xmlnode elements) *)
Theorem C03_save_keeps_model : forall fc s, view (smodel (fst (save_in fc s))) = view (smodel s).
Proof. exact save_keeps_view. Qed.
Print Assumptions C03_save_keeps_model.

(* saving again without an edit in between: the whole state (tree and model) is a fixed point,
   hence so are the bytes of a write *)
Theorem C03_save_idempotent : forall s s1,
  wf_libs (smodel s) -> single_asset (stree s) ->
  save s = (s1, Ok tt) -> save s1 = (s1, Ok tt).
Proof. exact save_idempotent. Qed.
Print Assumptions C03_save_idempotent.

(* SPEC side of save: after a successful save the tree says what the model says *)
Theorem C03_save_syncs : forall s s1,
  wf_libs (smodel s) -> single_asset (stree s) -> save s = (s1, Ok tt) ->
  Forall (lib_synced (stree s1)) (mlibs (smodel s)) /\
  hd_error (stree s1) = Some (asset_el (smodel s)) /\
  exists c, find_tag a_scene (stree s1) = Some c /\ rsub c = 0%N /\
            rkids c = match mscene (smodel s) with Some (_, sid) => [(0%N, sid)] | None => [] end.
Proof. exact save_syncs. Qed.
Print Assumptions C03_save_syncs.

(* root children outside <asset>, the managed libraries and <scene> keep identity, order and
   subtree, whether the save completes or is interrupted *)
Theorem C03_unmanaged_preserved : forall fc s,
  unmanaged_children (smodel s) (stree (fst (save_in fc s))) =
  unmanaged_children (smodel s) (stree s).
Proof. exact unmanaged_preserved. Qed.
Print Assumptions C03_unmanaged_preserved.

(* any partial save is forgotten by the next complete save: whatever an attempt in ANY fault
   context leaves behind (objects failing at any point of the library loop, the default
   scene pointed anywhere), a complete save of it gives the state a complete save of the
   original gives *)
Theorem C03_save_confluent : forall fc s,
  wf_libs (smodel s) -> single_asset (stree s) -> healthy (smodel s) ->
  save (save_faulted fc s) = save s.
Proof. exact save_confluent. Qed.
Print Assumptions C03_save_confluent.

Theorem C03_save_prefix_forgotten : forall u s,
  wf_libs (smodel s) -> single_asset (stree s) -> healthy (smodel s) ->
  save (save_prefix u s) = save s.
Proof. intros u s. apply save_confluent. Qed.
Print Assumptions C03_save_prefix_forgotten.

(* ---- Collada.write *)

(* a write that fails leaves a destination given by path as it was (absent stays absent, a
   file keeps its bytes), and the model as it was *)
Theorem C03_failed_write_leaves_destination : forall fc f s s' d' e,
  write_in fc (DPath f) s = (s', d', Raise e) ->
  d' = DPath f /\ view (smodel s') = view (smodel s).
Proof. exact failed_write_leaves_destination. Qed.
Print Assumptions C03_failed_write_leaves_destination.

(* any write, to any destination, failing anywhere: the model is as it was *)
Theorem C03_failed_write_keeps_model : forall fc d s,
  view (smodel (fst (fst (write_in fc d s)))) = view (smodel s).
Proof. exact failed_write_keeps_model. Qed.
Print Assumptions C03_failed_write_keeps_model.

(* after ANY history of attempts - saves and writes, complete or failing: validation failures
   at any point inside save(), sinks failing after any number of bytes, path destinations, in
   any order and number - a write to a healthy destination delivers exactly the bytes it
   delivers when nothing was ever attempted, and the model is as it was.  (Induction over the
   history with the invariant "save gives what it gave at the start".) *)
Theorem C03_write_after_failures : forall s es,
  wf_libs (smodel s) -> single_asset (stree s) -> healthy (smodel s) ->
  healthy_bytes (run_events s es) = healthy_bytes s /\
  view (smodel (run_events s es)) = view (smodel s).
Proof. exact write_after_failures. Qed.
Print Assumptions C03_write_after_failures.

(* ---- saves interleaved with read-only queries (C03 x C17).
   Over the product of the SaveState model with C17's footprint model (Model/Purity.v, imported
   read-only): a heap whose observable locations determine the (model, tree) state, queries
   that write hidden locations only, a heap-level save that is [save] on the state.  The
   discipline is C17's (measured on the implementation by Check/C17.v) plus the simulation. *)
Section C03_queries.
  Variable query : Type.
  Variable writes : query -> loc -> bool.
  Variable exec : query -> heap -> heap * val.
  Variable hsave : heap -> heap * val.
  Variable absn : heap -> state.
  Variable out : state -> val.
  Hypothesis writes_hidden : forall q l, writes q l = true -> observable l = false.
  Hypothesis frame : forall q h l, writes q l = false -> fst (exec q h) l = h l.
  Hypothesis save_reads_observable :
    forall h h', obs_eq h h' -> obs_eq (fst (hsave h)) (fst (hsave h')) /\ snd (hsave h) = snd (hsave h').
  Hypothesis absn_observable : forall h h', obs_eq h h' -> absn h = absn h'.
  Hypothesis hsave_sim : forall h, absn (fst (hsave h)) = fst (save (absn h)).
  Hypothesis hsave_out : forall h, snd (hsave h) = out (fst (save (absn h))).

  (* for every history of saves and queries: the model view is constant; every save writes the
     bytes of the first save of the never-queried document; from the first save on the state
     is that save's fixed point (so every save produces the same tree); without a save the
     state is the initial one *)
  Theorem C03_saves_and_queries : forall (ops : list (op query)) h,
    wf_libs (smodel (absn h)) -> single_asset (stree (absn h)) -> healthy (smodel (absn h)) ->
    let s1 := fst (save (absn h)) in
    let hf := fst (run query exec hsave h ops) in
    view (smodel (absn hf)) = view (smodel (absn h)) /\
    saved_outputs (snd (run query exec hsave h ops)) = map (fun _ => out s1) (saves_only query ops) /\
    (saves_only query ops <> [] -> absn hf = s1) /\
    (saves_only query ops = [] -> absn hf = absn h).
  Proof.
    exact (saves_and_queries query writes exec hsave absn out writes_hidden frame save_reads_observable
             absn_observable hsave_sim hsave_out).
  Qed.
End C03_queries.
Print Assumptions C03_saves_and_queries.

(* ---- bytes: Indent composed with SaveState (Proofs/WriteBytes.v).
   Concrete documents carry their whitespace; write = save, xmlutil.indent on the root,
   serialisation.  Hypotheses: the concrete indent is Indent.indent on the skeleton and keeps
   the content; content atoms stand for everything but the whitespace indent may rewrite (this
   is how the harness computes them: canon() in harness/impl/c03.py); the concrete save is
   simulated by save_in on the content. *)
Section C03_bytes.
  Variable ctree : Type.
  Variable content : ctree -> list rchild.
  Variable skel : ctree -> wtree.
  Variable windent : ctree -> ctree.
  Variable serw : wtree -> list N.
  Variable csave : faults -> model -> ctree -> (model * ctree) * outcome unit.
  Hypothesis skel_windent : forall T, skel (windent T) = indent 0 (skel T).
  Hypothesis content_windent : forall T, content (windent T) = content T.
  Hypothesis content_strip : forall T1 T2, content T1 = content T2 -> strip 0 (skel T1) = strip 0 (skel T2).
  Hypothesis csave_sim : forall fc m T,
    save_in fc (St m (content T)) =
    (St (fst (fst (csave fc m T))) (content (snd (fst (csave fc m T)))), snd (csave fc m T)).

  (* the bytes of a write are the serialisation of the indented skeleton of the saved tree *)
  Theorem C03_bytes_of_write : forall cs cs1,
    csave no_fault (fst cs) (snd cs) = (cs1, Ok tt) ->
    chealthy_bytes ctree skel windent serw csave cs = Some (serw (indent 0 (skel (snd cs1)))).
  Proof. exact (bytes_of_write ctree skel windent serw csave skel_windent). Qed.

  (* C03_write_after_failures about bytes, through C03_indent_canonical *)
  Theorem C03_write_after_failures_bytes : forall cs es,
    wf_libs (fst cs) -> single_asset (content (snd cs)) -> healthy (fst cs) ->
    chealthy_bytes ctree skel windent serw csave (crun_events ctree skel windent serw csave cs es) =
    chealthy_bytes ctree skel windent serw csave cs /\
    view (fst (crun_events ctree skel windent serw csave cs es)) = view (fst cs).
  Proof.
    exact (cwrite_after_failures ctree content skel windent serw csave skel_windent content_windent
             content_strip csave_sim).
  Qed.

  (* writing again without an edit: identical bytes, although the tree's whitespace has changed *)
  Theorem C03_write_twice_bytes : forall cs,
    wf_libs (fst cs) -> single_asset (content (snd cs)) -> healthy (fst cs) ->
    chealthy_bytes ctree skel windent serw csave
      (fst (fst (cwrite_in ctree skel windent serw csave no_fault (DSink None []) cs))) =
    chealthy_bytes ctree skel windent serw csave cs.
  Proof.
    exact (cwrite_twice ctree content skel windent serw csave skel_windent content_windent content_strip csave_sim).
  Qed.
End C03_bytes.
Print Assumptions C03_bytes_of_write.
Print Assumptions C03_write_after_failures_bytes.
Print Assumptions C03_write_twice_bytes.

(* ---- object-level save(), for the classes the C06 family models (Model/Emit.v, read-only):
   Model/SaveState.v takes an object's save() to be a deterministic emission and stands an atom
   ([ocont]) for it.  For geometry (sources, primitives, vertices), node (recursive: transforms,
   instances, bind_material), visual scene, light, camera, material and float source, C06's codecs
   make this a theorem: what save() writes is [emit_K content] - a function of the content, free
   of identities - from which the content reads back; so saving an element that save() produced
   emits the same element again, and equal emissions mean equal contents. *)
Theorem C03_object_save_fixed_point : forall arr,
  (forall g, wf_geometry g -> resave geometry (emit_geometry arr) read_geometry (emit_geometry arr g) = Some (emit_geometry arr g)) /\
  (forall n, resave node emit_node read_node (emit_node n) = Some (emit_node n)) /\
  (forall s, wf_scene s -> resave vscene emit_scene read_scene (emit_scene s) = Some (emit_scene s)) /\
  (forall l, wf_light l -> resave light emit_light read_light (emit_light l) = Some (emit_light l)) /\
  (forall c, wf_camera c -> resave camera emit_camera read_camera (emit_camera c) = Some (emit_camera c)) /\
  (forall m, resave material emit_material read_material (emit_material m) = Some (emit_material m)) /\
  (forall s, resave source (emit_source arr) read_source (emit_source arr s) = Some (emit_source arr s)).
Proof. exact object_save_fixed_point. Qed.
Print Assumptions C03_object_save_fixed_point.

Theorem C03_emission_injective : forall arr,
  (forall g1 g2, wf_geometry g1 -> wf_geometry g2 -> emit_geometry arr g1 = emit_geometry arr g2 -> g1 = g2) /\
  (forall n1 n2, emit_node n1 = emit_node n2 -> n1 = n2) /\
  (forall s1 s2, wf_scene s1 -> wf_scene s2 -> emit_scene s1 = emit_scene s2 -> s1 = s2) /\
  (forall l1 l2, wf_light l1 -> wf_light l2 -> emit_light l1 = emit_light l2 -> l1 = l2) /\
  (forall c1 c2, wf_camera c1 -> wf_camera c2 -> emit_camera c1 = emit_camera c2 -> c1 = c2) /\
  (forall m1 m2, emit_material m1 = emit_material m2 -> m1 = m2).
Proof. exact emission_injective. Qed.
Print Assumptions C03_emission_injective.

(* ---- non-vacuity *)

(* a whitespace skeleton with every slot class, blank leaf text, text in a tail, three levels *)
Definition ex_tree : wtree :=
  WNode 1 SAbsent (SBlank 7)
    [WNode 2 (SBlank 3) SAbsent [WNode 4 (SText 9) (SInd 5) []; WNode 5 (SBlank 2) (SText 8) []];
     WNode 3 (SText 6) (SBlank 1) [];
     WNode 6 SAbsent SAbsent [WNode 7 SAbsent SAbsent []]].

Example C03_indent_nonvacuous :
  indent 0 ex_tree =
    WNode 1 (SInd 1) (SInd 0)
      [WNode 2 (SInd 2) (SInd 1) [WNode 4 (SText 9) (SInd 2) []; WNode 5 (SBlank 2) (SText 8) []];
       WNode 3 (SText 6) (SInd 1) [];
       WNode 6 (SInd 2) (SInd 0) [WNode 7 SAbsent (SInd 1) []]]
  /\ indent 0 ex_tree <> ex_tree.
Proof. split; [vm_compute; reflexivity|vm_compute; intro H; discriminate H]. Qed.

Local Open Scope N_scope.
(* a loaded document: stale <asset>, two cameras, a geometry whose node differs from what
   save() emits, an animation library and a top-level <extra> between managed elements, a
   library to be removed (no lights), one to be created (materials), a stale instance in
   <scene> *)
Definition ex_model : model :=
  Model 500
    [Lib a_library_geometries false [Obj 1 2001 11 601];
     Lib a_library_lights false [];
     Lib a_library_cameras true [Obj 2 2002 12 602; Obj 3 2003 13 603];
     Lib a_library_materials false [Obj 4 2004 14 604];
     Lib a_library_visual_scenes false [Obj 5 2005 15 605]]
    (Some (5, 2005)).
Definition ex_tree0 : list rchild :=
  [RC 21 a_library_animations 700 [];
   RC 22 a_asset 499 [];
   RC 23 a_library_cameras 0 [(12, 652); (13, 603)]%N;
   RC 24 a_library_lights 0 [(30, 660)]%N;
   RC 25 a_extra 701 [];
   RC 26 a_library_geometries 0 [(11, 651); (31, 661)]%N;
   RC 27 a_library_visual_scenes 0 [(15, 605)]%N;
   RC 28 a_scene 0 [(32, 2099)]%N;
   RC 29 a_library_physics_models 702 []].
Definition ex_state : state := St ex_model ex_tree0.

Definition fail_cam (u : N) : faults := Faults (fun v => if N.eqb v u then Some DaeMalformed else None) None.
Definition bad_scene : faults := Faults (fun _ => None) (Some (Some (9, 2999))).

Example C03_hypotheses_met :
  wf_libs (smodel ex_state) /\ single_asset (stree ex_state) /\ healthy (smodel ex_state).
Proof.
  split; [apply wf_libs_b_ok; vm_compute; reflexivity|].
  split; [apply single_asset_b_ok; vm_compute; reflexivity|apply healthy_b_ok; vm_compute; reflexivity].
Qed.

(* the attempts do fail, each leaves a different tree, none of them the saved one *)
Example C03_faults_nonvacuous :
  snd (save_in (fail_cam 3) ex_state) = Raise DaeMalformed /\
  snd (save_in (fail_cam 1) ex_state) = Raise DaeMalformed /\
  snd (save_in bad_scene ex_state) = Raise DaeBrokenRef /\
  snd (save ex_state) = Ok tt /\
  stree (save_faulted (fail_cam 3) ex_state) <> stree (fst (save ex_state)) /\
  stree (save_faulted bad_scene ex_state) <> stree (fst (save ex_state)) /\
  stree (save_faulted (fail_cam 3) ex_state) <> stree ex_state /\
  (* the interrupted loop has dropped <library_lights> and refreshed the geometry in place,
     the cameras' elements are still the stale ones, materials not yet created *)
  map rtag (stree (save_faulted (fail_cam 3) ex_state)) =
    [a_asset; a_library_animations; a_library_cameras; a_extra; a_library_geometries;
     a_library_visual_scenes; a_scene; a_library_physics_models].
Proof. vm_compute. repeat split; try reflexivity; intro H; discriminate H. Qed.

Example C03_history_nonvacuous :
  let es := [EWrite (fail_cam 3) (DPath None); EWrite no_fault (DSink (Some 5%nat) []);
             ESave bad_scene; EWrite (fail_cam 1) (DPath (Some [1%N])); ESave no_fault;
             EWrite no_fault (DSink (Some 0%nat) []); ESave (fail_cam 2)] in
  healthy_bytes (run_events ex_state es) = healthy_bytes ex_state /\
  healthy_bytes ex_state <> None /\
  unmanaged_children ex_model (stree (run_events ex_state es)) =
    [RC 21 a_library_animations 700 []; RC 25 a_extra 701 []; RC 29 a_library_physics_models 702 []] /\
  (* what the saved tree looks like: fresh asset first, the new library right after it *)
  map rtag (stree (fst (save ex_state))) =
    [a_asset; a_library_materials; a_library_animations; a_library_cameras; a_extra;
     a_library_geometries; a_library_visual_scenes; a_scene; a_library_physics_models] /\
  (* failed writes leave path destinations alone, a sink failing after 5 has taken 5 *)
  snd (fst (write_in (fail_cam 3) (DPath None) ex_state)) = DPath None /\
  snd (fst (write_in (fail_cam 1) (DPath (Some [1%N])) ex_state)) = DPath (Some [1%N]) /\
  (exists got, snd (fst (write (DSink (Some 5%nat) []) ex_state)) = DSink (Some 5%nat) got /\ length got = 5%nat) /\
  snd (write (DSink (Some 5%nat) []) ex_state) = Raise PyOther.
Proof.
  vm_compute. repeat split; try reflexivity; try (intro H; discriminate H).
  eexists. split; reflexivity.
Qed.

(* repeated libraries (and a repeated <scene>) are within the theorems: the later
   library_cameras goes, idempotence and confluence hold by the theorems above *)
Definition ex_dup_state : state :=
  St ex_model (ex_tree0 ++ [RC 40 a_library_cameras 0 [(41, 690)]; RC 42 a_scene 0 []; RC 43 a_library_lights 0 []]).
Example C03_duplicate_libraries_nonvacuous :
  wf_libs (smodel ex_dup_state) /\ single_asset (stree ex_dup_state) /\ healthy (smodel ex_dup_state) /\
  count_tag a_library_cameras (stree ex_dup_state) = 2%nat /\
  count_tag a_library_cameras (stree (fst (save ex_dup_state))) = 1%nat /\
  count_tag a_library_lights (stree (fst (save ex_dup_state))) = 0%nat /\
  save (save_faulted (fail_cam 3) ex_dup_state) = save ex_dup_state /\
  stree (save_faulted (fail_cam 3) ex_dup_state) <> stree (fst (save ex_dup_state)).
Proof.
  split; [apply wf_libs_b_ok; vm_compute; reflexivity|].
  split; [apply single_asset_b_ok; vm_compute; reflexivity|].
  split; [apply healthy_b_ok; vm_compute; reflexivity|].
  vm_compute. repeat split; try reflexivity. intro H; discriminate H.
Qed.

(* why [single_asset] stays: with two <asset> children, library_loc (the index after the LAST
   one) moves when the failed attempt has removed the emptied library in front of it, so the
   library the repaired save creates lands elsewhere.  The implementation does the same
   (notes/C03.md). *)
Definition ex_two_assets : state :=
  St (Model 500 [Lib a_library_lights false []; Lib a_library_cameras true [Obj 2 2002 12 602];
                 Lib a_library_effects false [Obj 4 2004 14 604]] None)
     [RC 21 a_asset 499 []; RC 22 a_library_lights 0 [(30, 660)]; RC 23 a_asset 498 [];
      RC 24 a_library_cameras 0 [(12, 602)]; RC 25 a_scene 0 []].
Example C03_two_assets_refuted :
  wf_libs (smodel ex_two_assets) /\ healthy (smodel ex_two_assets) /\ ~ single_asset (stree ex_two_assets) /\
  snd (save_in (fail_cam 2) ex_two_assets) = Raise DaeMalformed /\
  map rtag (stree (fst (save ex_two_assets))) =
    [a_asset; a_asset; a_library_cameras; a_library_effects; a_scene] /\
  map rtag (stree (fst (save (save_faulted (fail_cam 2) ex_two_assets)))) =
    [a_asset; a_asset; a_library_effects; a_library_cameras; a_scene].
Proof.
  split; [apply wf_libs_b_ok; vm_compute; reflexivity|].
  split; [apply healthy_b_ok; vm_compute; reflexivity|].
  split; [unfold single_asset; vm_compute; intro H; inversion H as [|? H1]; inversion H1|].
  vm_compute. repeat split; reflexivity.
Qed.

(* the product hypotheses of C03_saves_and_queries are jointly satisfiable with a query that
   really writes (a hidden cache) and a save that really changes the tree: instance over
   ex_state, history  query, save, query, query, save, query *)
Example C03_saves_and_queries_nonvacuous :
  let ops := [Q IFill; Save; Q IRead; Q IFill; Save; Q IFill] in
  let h0 : heap := fun _ => 0%N in
  let r := run iq i_exec (i_hsave ex_state) h0 ops in
  i_absn ex_state (fst r) = fst (save ex_state) /\
  i_absn ex_state h0 = ex_state /\ fst (save ex_state) <> ex_state /\
  saved_outputs (snd r) = [i_out (fst (save ex_state)); i_out (fst (save ex_state))] /\
  fst r i_cache <> h0 i_cache /\
  view (smodel (i_absn ex_state (fst r))) = view (smodel ex_state).
Proof.
  assert (FX : save (fst (save ex_state)) = (fst (save ex_state), Ok tt)) by (vm_compute; reflexivity).
  destruct C03_hypotheses_met as (WL & SA & HH).
  destruct (C03_saves_and_queries iq i_writes i_exec (i_hsave ex_state) (i_absn ex_state) i_out
              i_writes_hidden i_frame (i_save_obs ex_state) (i_absn_obs ex_state) (i_sim ex_state FX)
              (i_out_ok ex_state FX) [Q IFill; Save; Q IRead; Q IFill; Save; Q IFill] (fun _ => 0%N) WL SA HH)
    as (V & O & S & _).
  cbv zeta. split; [apply S; discriminate|]. split; [reflexivity|].
  split; [vm_compute; intro X; discriminate X|]. split; [exact O|]. split; [vm_compute; intro X; discriminate X|exact V].
Qed.

(* the byte-level hypotheses are satisfiable (instance of Proofs/WriteBytes.v: a document is its
   content plus "indented since the last save"): on ex_state the history leaves the document
   indented where the untouched one is not, the bytes are there, and they agree *)
Example C03_bytes_nonvacuous :
  let es := [EWrite (fail_cam 3) (DPath None); EWrite no_fault (DSink (Some 5%nat) []); ESave bad_scene;
             EWrite no_fault (DSink None [])] in
  let cs : cstate i_ctree := (ex_model, (ex_tree0, false)) in
  let hb := chealthy_bytes i_ctree i_skel i_windent i_serw i_csave in
  let cs' := crun_events i_ctree i_skel i_windent i_serw i_csave cs es in
  hb cs' = hb cs /\ hb cs <> None /\ snd (snd cs') = true /\ snd (snd cs) = false /\
  i_skel (snd cs') <> cskel (fst (snd cs')).
Proof.
  destruct C03_hypotheses_met as (WL & SA & HH).
  cbv zeta. split.
  - exact (proj1 (C03_write_after_failures_bytes i_ctree i_content i_skel i_windent i_serw i_csave
             i_skel_windent i_content_windent i_content_strip i_csave_sim (ex_model, (ex_tree0, false)) _ WL SA HH)).
  - vm_compute. repeat split; try reflexivity; intro X; discriminate X.
Qed.
