(* C10 - placeholder while the proofs are written *)
From Coq Require Import List ZArith NArith.
From PC Require Import Base.Outcome Model.IndexTable Model.PrimCtor Model.PrimIter.
Import ListNotations.
Example C10_placeholder : 1 = 1.
Proof. reflexivity. Qed.
