(* C10 - item access, iteration and array views of a primitive agree, bound and unbound.
   Statements only; proofs are in Proofs/PrimIter.v (and Proofs/PrimCtor.v for what
   acceptance by a constructor gives).

   [unbound p] / [bind p m matmap] are the primitive as seen by item access; [ilen] is
   len(); [getitem] is __getitem__; [iter] is list(prim) through Python's legacy protocol
   (call __getitem__ 0, 1, ... until IndexError; anything else propagates); [shapes] is the
   bound sets' shapes() generator.  SPEC: [spec_item q i] reads item i off the array views by
   position only ([pick] = explicit positions, [rows_at] = data rows at those indices).

   One recorded finding is excluded by [no_void_polygons]: a polylist / polygons with an
   EMPTY index and a non-empty vcount list of zeros (C10_iter_refuted). *)
From Coq Require Import List ZArith NArith Lia.
From PC Require Import Base.Outcome Model.IndexTable Model.PrimCtor Model.PrimIter
  Proofs.IndexTable Proofs.PrimCtor Proofs.PrimIter.
Import ListNotations.

(* len() is the number of shapes: rows of the index for triangles and lines, one per
   vertex count for polylists and polygons *)
Theorem C10_len_counts_shapes : forall p,
  ilen (unbound p) = (if is_poly (p_kind p) then length (p_vcounts p) else p_nrows p) /\
  forall m mm, ilen (bind p m mm) = ilen (unbound p).
Proof. intro p. split; [reflexivity|]. intros. reflexivity. Qed.
Print Assumptions C10_len_counts_shapes.

(* iteration of an accepted unbound primitive yields exactly the len() items the SPEC
   describes, in order, and ends (no exception) *)
Theorem C10_iter_is_map_partial : forall kd ins mat s p, construct kd ins mat s = Ok p ->
  no_void_polygons p ->
  iter (unbound p) = Ok (map (spec_item (unbound p)) (seq 0 (ilen (unbound p)))).
Proof. intros. apply iter_is_map; [eapply unbound_iwf; eauto|now apply guard_unbound]. Qed.
Print Assumptions C10_iter_is_map_partial.

(* for triangle and line sets no guard is needed *)
Theorem C10_iter_is_map_triangles_lines : forall kd ins mat s p, construct kd ins mat s = Ok p ->
  is_poly kd = false ->
  iter (unbound p) = Ok (map (spec_item (unbound p)) (seq 0 (p_nrows p))) /\
  forall m mm, shapes (bind p m mm) = Ok (map (spec_item (bind p m mm)) (seq 0 (p_nrows p))) /\
               iter (bind p m mm) = Ok (map (spec_item (bind p m mm)) (seq 0 (p_nrows p))).
Proof.
  intros kd ins mat s p H Hk. destruct (accepted_shapes _ _ _ _ _ H) as [K _].
  assert (G : no_void_polygons p) by (intros _ Hp; rewrite K, Hk in Hp; discriminate).
  assert (L : forall q, ip_kind q = p_kind p -> ip_nrows q = p_nrows p -> ilen q = p_nrows p).
  { intros q E1 E2. unfold ilen. rewrite E1, K, Hk. exact E2. }
  split.
  - rewrite <- (L (unbound p)) by reflexivity. eapply C10_iter_is_map_partial; eauto.
  - intros m mm. rewrite <- (L (bind p m mm)) by reflexivity. split.
    + apply shapes_is_map; [eapply bind_iwf; eauto|now apply guard_bind].
    + apply iter_is_map; [eapply bind_iwf; eauto|now apply guard_bind].
Qed.
Print Assumptions C10_iter_is_map_triangles_lines.

(* an empty primitive iterates to nothing *)
Theorem C10_empty_iterates_to_nothing : forall kd ins mat s p, construct kd ins mat s = Ok p ->
  no_void_polygons p -> p_nrows p = 0 ->
  iter (unbound p) = Ok [] /\ forall m mm, shapes (bind p m mm) = Ok [] /\ iter (bind p m mm) = Ok [].
Proof.
  intros kd ins mat s p H G Z.
  assert (L : forall q, guard q -> ip_nrows q = 0 -> ilen q = 0) by (intros q Gq Zq; auto).
  split.
  - rewrite (C10_iter_is_map_partial _ _ _ _ _ H G). rewrite (L _ (guard_unbound _ G) Z). reflexivity.
  - intros m mm. pose proof (guard_bind p m mm G) as Gb. split.
    + rewrite (shapes_is_map _ (bind_iwf _ _ _ _ _ m mm H) Gb). rewrite (L _ Gb Z). reflexivity.
    + rewrite (iter_is_map _ (bind_iwf _ _ _ _ _ m mm H) Gb). rewrite (L _ Gb Z). reflexivity.
Qed.
Print Assumptions C10_empty_iterates_to_nothing.

(* item access: prim[i] succeeds exactly for i < len() and returns the SPEC's item *)
Theorem C10_item_fields : forall kd ins mat s p i, construct kd ins mat s = Ok p -> no_void_polygons p ->
  (i < ilen (unbound p) -> getitem (unbound p) i = Ok (spec_item (unbound p) i)) /\
  (forall it, getitem (unbound p) i = Ok it -> i < ilen (unbound p)) /\
  getitem (unbound p) (ilen (unbound p)) = Raise PyIndexError.
Proof.
  intros kd ins mat s p i H G. split; [|split].
  - intro Hi. apply getitem_spec; [eapply unbound_iwf; eauto|now apply guard_unbound|exact Hi].
  - intros it. apply getitem_ok_lt.
  - apply getitem_end.
Qed.
Print Assumptions C10_item_fields.

(* the SPEC item, field by field and corner by corner: the c-th index of item i is the view's
   entry at position start_i + c, and the c-th vertex is the data row that index selects *)
Theorem C10_item_fields_pointwise : forall q i c,
  let st := fst (spec_range q i) in let cnt := snd (spec_range q i) in
  forall vdata vidx, ip_vertex q = Some (vdata, vidx) -> c < cnt ->
  length (it_indices (spec_item q i)) = cnt /\
  nth c (it_indices (spec_item q i)) 0%N = nth (st + c) vidx 0%N /\
  nth c (it_vertices (spec_item q i)) [] = nth (N.to_nat (nth (st + c) vidx 0%N)) vdata [] /\
  it_material (spec_item q i) = ip_material q /\
  (forall ndata nidx', ip_normal q = Some (ndata, nidx') ->
     exists rows, it_normals (spec_item q i) = NRows rows /\
       nth c rows [] = nth (N.to_nat (nth (st + c) nidx' 0%N)) ndata []) /\
  length (it_texcoords (spec_item q i)) = length (ip_texcoord q).
Proof.
  intros q i c st cnt vdata vidx Hv Hc. subst st cnt. unfold spec_item.
  destruct (spec_range q i) as [st cnt]. simpl in *. rewrite Hv. simpl.
  repeat split.
  - apply pick_length.
  - now apply pick_nth.
  - rewrite rows_at_nth by (now rewrite pick_length). now rewrite pick_nth.
  - intros ndata nidx' Hn. rewrite Hn. eexists. split; [destruct (ip_kind q); reflexivity|].
    simpl. rewrite rows_at_nth by (now rewrite pick_length). now rewrite pick_nth.
  - now rewrite map_length.
Qed.
Print Assumptions C10_item_fields_pointwise.

(* polygon i covers exactly [start_i, start_i + vcount_i): the ranges start at 0, tile the
   corner arrays without gap or overlap and end at the last corner; triangles and lines cover
   [i*k, i*k + k) *)
Theorem C10_polygon_ranges_tile : forall kd ins mat s p, construct kd ins mat s = Ok p ->
  let q := unbound p in
  (is_poly kd = true ->
     fst (spec_range q 0) = 0 /\
     (forall i, i < ilen q -> snd (spec_range q i) = nth i (p_vcounts p) 0 /\
                              fst (spec_range q (S i)) = fst (spec_range q i) + snd (spec_range q i)) /\
     fst (spec_range q (ilen q)) = p_nrows p) /\
  (is_poly kd = false -> forall i, spec_range q i = (i * kind_k kd, kind_k kd)).
Proof.
  intros kd ins mat s p H q. destruct (accepted_shapes _ _ _ _ _ H) as [K [_ S]]. subst q.
  unfold spec_range, ilen, unbound. simpl. rewrite K. split; intro Hp; rewrite Hp.
  - simpl. split; [reflexivity|]. split.
    + intros i Hi. simpl. split; [reflexivity|]. now apply sum_firstn_succ.
    + rewrite firstn_all. auto.
  - reflexivity.
Qed.
Print Assumptions C10_polygon_ranges_tile.

(* an absent input shows up the same way on every item *)
Theorem C10_absent_inputs : forall q i j,
  (ip_normal q = None ->
     it_normal_indices (spec_item q i) = it_normal_indices (spec_item q j) /\
     it_normals (spec_item q i) = it_normals (spec_item q j) /\
     (ip_kind q <> KTri -> it_normals (spec_item q i) = NNone)) /\
  (ip_texcoord q = [] -> it_texcoords (spec_item q i) = [] /\ it_texcoord_indices (spec_item q i) = []).
Proof.
  intros q i j. unfold spec_item. destruct (spec_range q i) as [s1 c1]. destruct (spec_range q j) as [s2 c2].
  split.
  - intro Hn. rewrite Hn. simpl. destruct (ip_kind q); repeat split; auto; congruence.
  - intro Ht. rewrite Ht. simpl. destruct (ip_kind q); auto.
Qed.
Print Assumptions C10_absent_inputs.

(* bound primitives: shapes() and list(bound) yield the SPEC's items over the transformed
   arrays, for any integer matrix and any material map; index arrays, texture coordinates and
   the number of shapes are those of the unbound primitive and the material is the map's *)
Theorem C10_bound_iter_is_map_partial : forall kd ins mat s p m mm, construct kd ins mat s = Ok p ->
  no_void_polygons p ->
  let b := bind p m mm in
  shapes b = Ok (map (spec_item b) (seq 0 (ilen b))) /\
  iter b = Ok (map (spec_item b) (seq 0 (ilen b))) /\
  ilen b = ilen (unbound p) /\
  option_map snd (ip_vertex b) = option_map snd (ip_vertex (unbound p)) /\
  option_map fst (ip_vertex b) = option_map (fun v => map (xform_point m) (fst v)) (ip_vertex (unbound p)) /\
  option_map fst (ip_normal b) = option_map (fun v => map (xform_dir m) (fst v)) (ip_normal (unbound p)) /\
  ip_texcoord b = ip_texcoord (unbound p) /\
  ip_material b = match p_material p with Some sy => lookup mm sy | None => None end.
Proof.
  intros kd ins mat s p m mm H G b. subst b. split; [|split].
  - apply shapes_is_map; [eapply bind_iwf; eauto|now apply guard_bind].
  - apply iter_is_map; [eapply bind_iwf; eauto|now apply guard_bind].
  - unfold bind, unbound. simpl. repeat split; destruct (p_vertex p), (p_normal p); reflexivity.
Qed.
Print Assumptions C10_bound_iter_is_map_partial.

(* ---- the finding that the guard excludes: two zero-corner polygons on an empty index are
   accepted, len() is 2, and item access subscripts the absent views (TypeError) *)
Definition void_ins := [Inp 0 VERTEX (Src [[0;0;0];[1;0;0];[0;1;0]]%Z 3)].
Example C10_iter_refuted :
  exists p, construct KPolylist void_ins None (SPolylist [] [0; 0]) = Ok p /\
            ilen (unbound p) = 2 /\ iter (unbound p) = Raise PyTypeError /\ ~ no_void_polygons p.
Proof.
  eexists. split; [vm_compute; reflexivity|]. split; [reflexivity|]. split; [vm_compute; reflexivity|].
  intro G. specialize (G eq_refl eq_refl). discriminate.
Qed.

(* ---- Non-vacuity: a polylist with normals and two texcoord sets, three polygons (one of
   them a zero-corner polygon in the middle), bound with a rotation + translation *)
Definition ex_v := Src [[0;0;0];[1;0;0];[0;1;0];[0;0;1]]%Z 3.
Definition ex_n := Src [[0;0;1];[0;1;0]]%Z 3.
Definition ex_t := Src [[0;0];[1;0];[0;1]]%Z 2.
Definition ex_ins := [Inp 0 VERTEX ex_v; Inp 1 NORMAL ex_n; Inp 0 TEXCOORD ex_t; Inp 2 TEXCOORD ex_t].
Definition ex_stream := SPolylist [0;0;2; 1;1;0; 2;0;1;   2;1;1; 1;0;2; 0;1;0; 2;0;0]%N [3; 0; 4].

Example C10_nonvacuous :
  exists p, construct KPolylist ex_ins (Some 7%N) ex_stream = Ok p /\ no_void_polygons p /\
    ilen (unbound p) = 3 /\
    option_map (map it_indices) (match iter (unbound p) with Ok l => Some l | _ => None end)
      = Some [[0;1;2]; []; [2;1;0;2]]%N /\
    option_map (map it_vertices)
      (match shapes (bind p [[0;-1;0;5];[1;0;0;0];[0;0;1;-2]]%Z [(7, 9)]%N) with Ok l => Some l | _ => None end)
      = Some [[[5;0;-2];[5;1;-2];[4;0;-2]]; []; [[4;0;-2];[5;1;-2];[5;0;-2];[4;0;-2]]]%Z /\
    ip_material (bind p [[0;-1;0;5];[1;0;0;0];[0;0;1;-2]]%Z [(7, 9)]%N) = Some 9%N.
Proof.
  eexists. split; [vm_compute; reflexivity|]. split; [intros Z; vm_compute in Z; discriminate|].
  vm_compute. repeat split.
Qed.

Example C10_empty_nonvacuous :
  exists p, construct KTri ex_ins None (SFlat []) = Ok p /\ no_void_polygons p /\ p_nrows p = 0 /\
            iter (unbound p) = Ok [] /\ getitem (unbound p) 0 = Raise PyIndexError.
Proof. eexists. split; [vm_compute; reflexivity|]. split; [intros _ Hp; vm_compute in Hp; discriminate|]. vm_compute. repeat split. Qed.
