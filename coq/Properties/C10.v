(* C10 - item access, iteration and array views of a primitive agree, bound and unbound.
   Statements only; proofs are in Proofs/PrimIter.v (and Proofs/PrimCtor.v for what
   acceptance by a constructor gives).

   [unbound p] / [bind p m matmap] are the primitive as seen by item access; [ilen] is
   len(); [getitem] is __getitem__; [iter] is list(prim) through Python's legacy protocol
   (call __getitem__ 0, 1, ... until IndexError; anything else propagates); [shapes] is the
   bound sets' shapes() generator.  SPEC: [spec_item q i] reads item i off the array views by
   position only ([pick] = explicit positions, [rows_at] = data rows at those indices).

   [getitem_z] is prim[z] with Python's index normalisation (Base.Py.norm_index). *)
From Coq Require Import List ZArith NArith Lia.
From PC Require Import Base.Outcome Base.Mat Model.IndexTable Model.PrimCtor Model.PrimIter
  Proofs.IndexTable Proofs.PrimCtor Proofs.PrimIter.
Import ListNotations.

(* len() is the number of shapes: rows of the index for triangles and lines, one per
   vertex count for polylists and polygons *)
Theorem C10_len_counts_shapes : forall p,
  ilen (unbound p) = (if is_poly (p_kind p) then length (p_vcounts p) else p_nrows p) /\
  forall m mm, ilen (bind p m mm) = ilen (unbound p).
Proof. intro p. split; [reflexivity|]. intros. reflexivity. Qed.
Print Assumptions C10_len_counts_shapes.

(* iteration of an accepted unbound primitive yields exactly the len() items the SPEC
   describes, in order, and ends (no exception) - for every accepted primitive of every kind *)
Theorem C10_iter_is_map : forall kd ins mat s p, construct kd ins mat s = Ok p ->
  iter (unbound p) = Ok (map (spec_item (unbound p)) (seq 0 (ilen (unbound p)))).
Proof. intros. apply iter_is_map. eapply unbound_iwf; eauto. Qed.
Print Assumptions C10_iter_is_map.

(* an empty primitive iterates to nothing *)
Theorem C10_empty_iterates_to_nothing : forall kd ins mat s p, construct kd ins mat s = Ok p ->
  ilen (unbound p) = 0 ->
  iter (unbound p) = Ok [] /\ forall m mm, shapes (bind p m mm) = Ok [] /\ iter (bind p m mm) = Ok [].
Proof.
  intros kd ins mat s p H Z. split.
  - rewrite (C10_iter_is_map _ _ _ _ _ H), Z. reflexivity.
  - intros m mm. assert (Zb : ilen (bind p m mm) = 0) by exact Z. split.
    + rewrite (shapes_is_map _ (bind_iwf _ _ _ _ _ m mm H)), Zb. reflexivity.
    + rewrite (iter_is_map _ (bind_iwf _ _ _ _ _ m mm H)), Zb. reflexivity.
Qed.
Print Assumptions C10_empty_iterates_to_nothing.

(* item access: prim[i] succeeds exactly for i < len() and returns the SPEC's item *)
Theorem C10_item_fields : forall kd ins mat s p i, construct kd ins mat s = Ok p ->
  (i < ilen (unbound p) -> getitem (unbound p) i = Ok (spec_item (unbound p) i)) /\
  (forall it, getitem (unbound p) i = Ok it -> i < ilen (unbound p)) /\
  getitem (unbound p) (ilen (unbound p)) = Raise PyIndexError.
Proof.
  intros kd ins mat s p i H. split; [|split].
  - intro Hi. apply getitem_spec; [eapply unbound_iwf; eauto|exact Hi].
  - intros it. apply getitem_ok_lt.
  - apply getitem_end.
Qed.
Print Assumptions C10_item_fields.

(* prim[z] for any Python integer z, bound or unbound: positions count from the end when
   negative, and everything outside [-len, len) is an IndexError *)
Theorem C10_python_index : forall kd ins mat s p z q, construct kd ins mat s = Ok p ->
  (q = unbound p \/ exists m mm, q = bind p m mm) ->
  ((0 <= z < Z.of_nat (ilen q))%Z -> getitem_z q z = Ok (spec_item q (Z.to_nat z))) /\
  ((- Z.of_nat (ilen q) <= z < 0)%Z -> getitem_z q z = Ok (spec_item q (Z.to_nat (z + Z.of_nat (ilen q))))) /\
  ((z < - Z.of_nat (ilen q) \/ Z.of_nat (ilen q) <= z)%Z -> getitem_z q z = Raise PyIndexError).
Proof.
  intros kd ins mat s p z q H [->|[m [mm ->]]]; apply getitem_z_spec;
    [eapply unbound_iwf|eapply bind_iwf]; eauto.
Qed.
Print Assumptions C10_python_index.

(* the SPEC item, field by field and corner by corner: the c-th index of item i is the view's
   entry at position start_i + c, and the c-th vertex is the data row that index selects *)
Theorem C10_item_fields_pointwise : forall q i c,
  let st := fst (spec_range q i) in let cnt := snd (spec_range q i) in
  forall vdata vidx, ip_vertex q = Some (vdata, vidx) -> c < cnt ->
  length (it_indices (spec_item q i)) = cnt /\
  nth c (it_indices (spec_item q i)) 0%N = nth (st + c) vidx 0%N /\
  nth c (it_vertices (spec_item q i)) [] = nth (N.to_nat (nth (st + c) vidx 0%N)) vdata [] /\
  it_material (spec_item q i) = ip_material q /\
  (forall ndata nidx', ip_normal q = Some (ndata, nidx') ->
     exists rows, it_normals (spec_item q i) = NRows rows /\
       nth c rows [] = nth (N.to_nat (nth (st + c) nidx' 0%N)) ndata []) /\
  length (it_texcoords (spec_item q i)) = length (ip_texcoord q).
Proof.
  intros q i c st cnt vdata vidx Hv Hc. subst st cnt. unfold spec_item.
  destruct (spec_range q i) as [st cnt]. simpl in *. rewrite Hv. simpl.
  repeat split.
  - apply pick_length.
  - now apply pick_nth.
  - rewrite rows_at_nth by (now rewrite pick_length). now rewrite pick_nth.
  - intros ndata nidx' Hn. rewrite Hn. eexists. split; [destruct (ip_kind q); reflexivity|].
    simpl. rewrite rows_at_nth by (now rewrite pick_length). now rewrite pick_nth.
  - now rewrite map_length.
Qed.
Print Assumptions C10_item_fields_pointwise.

(* polygon i covers exactly [start_i, start_i + vcount_i): the ranges start at 0, tile the
   corner arrays without gap or overlap and end at the last corner; triangles and lines cover
   [i*k, i*k + k) *)
Theorem C10_polygon_ranges_tile : forall kd ins mat s p, construct kd ins mat s = Ok p ->
  let q := unbound p in
  (is_poly kd = true ->
     fst (spec_range q 0) = 0 /\
     (forall i, i < ilen q -> snd (spec_range q i) = nth i (p_vcounts p) 0 /\
                              fst (spec_range q (S i)) = fst (spec_range q i) + snd (spec_range q i)) /\
     fst (spec_range q (ilen q)) = p_nrows p) /\
  (is_poly kd = false -> forall i, spec_range q i = (i * kind_k kd, kind_k kd)).
Proof.
  intros kd ins mat s p H q. destruct (accepted_shapes _ _ _ _ _ H) as [K [_ S]]. subst q.
  unfold spec_range, ilen, unbound. simpl. rewrite K. split; intro Hp; rewrite Hp.
  - simpl. split; [reflexivity|]. split.
    + intros i Hi. simpl. split; [reflexivity|]. now apply sum_firstn_succ.
    + rewrite firstn_all. auto.
  - reflexivity.
Qed.
Print Assumptions C10_polygon_ranges_tile.

(* an absent input shows up the same way on every item *)
Theorem C10_absent_inputs : forall q i j,
  (ip_normal q = None ->
     it_normal_indices (spec_item q i) = it_normal_indices (spec_item q j) /\
     it_normals (spec_item q i) = it_normals (spec_item q j) /\
     (ip_kind q <> KTri -> it_normals (spec_item q i) = NNone)) /\
  (ip_texcoord q = [] -> it_texcoords (spec_item q i) = [] /\ it_texcoord_indices (spec_item q i) = []).
Proof.
  intros q i j. unfold spec_item. destruct (spec_range q i) as [s1 c1]. destruct (spec_range q j) as [s2 c2].
  split.
  - intro Hn. rewrite Hn. simpl. destruct (ip_kind q); repeat split; auto; congruence.
  - intro Ht. rewrite Ht. simpl. destruct (ip_kind q); auto.
Qed.
Print Assumptions C10_absent_inputs.

(* bound primitives: shapes() and list(bound) yield the SPEC's items over the bound arrays, for
   any integer matrix and any material map *)
Theorem C10_bound_iter_is_map : forall kd ins mat s p m mm, construct kd ins mat s = Ok p ->
  let b := bind p m mm in
  shapes b = Ok (map (spec_item b) (seq 0 (ilen b))) /\
  iter b = Ok (map (spec_item b) (seq 0 (ilen b))) /\
  ilen b = ilen (unbound p).
Proof.
  intros kd ins mat s p m mm H b. subst b. split; [|split].
  - apply shapes_is_map. eapply bind_iwf; eauto.
  - apply iter_is_map. eapply bind_iwf; eauto.
  - reflexivity.
Qed.
Print Assumptions C10_bound_iter_is_map.

(* ... and the i-th bound item IS the i-th unbound item transformed: same indices, texture
   coordinates and their indices, every vertex row mapped by v |-> R.v + t, every normal row by
   n |-> R.n (no translation), the material looked up in the map *)
Theorem C10_bound_item_is_unbound_transformed : forall kd ins mat s p m mm i,
  construct kd ins mat s = Ok p -> i < ilen (unbound p) ->
  let u := spec_item (unbound p) i in
  let b := spec_item (bind p m mm) i in
  it_indices b = it_indices u /\
  it_vertices b = map (xform_point m) (it_vertices u) /\
  it_texcoord_indices b = it_texcoord_indices u /\ it_texcoords b = it_texcoords u /\
  (forall l, it_normal_indices u = NIdx l -> it_normal_indices b = NIdx l) /\
  (forall rows, it_normals u = NRows rows -> it_normals b = NRows (map (xform_dir m) rows)) /\
  (it_normals u = NNone -> it_normals b = NNone) /\
  it_material b = match p_material p with Some sy => lookup mm sy | None => None end.
Proof. exact bound_item_transformed. Qed.
Print Assumptions C10_bound_item_is_unbound_transformed.

(* the row maps are Base/Mat.v's affine action: with A the 4x4 matrix whose first three rows
   are m and whose last row is 0 0 0 1, a point goes to xyz (A . (v, 1)) = lin A v + translation A
   and a direction to lin A v *)
Theorem C10_binding_is_affine_action : forall m v, length m = 3 ->
  affine 0%Z 1%Z (mat_of_rows m) /\
  xform_point m v = l3 (xyz (zmapply (mat_of_rows m) (point 1%Z (v3 v)))) /\
  xform_point m v = l3 (vadd Z.add (zlin_apply (mat_of_rows m) (v3 v)) (translation 0%Z (mat_of_rows m))) /\
  xform_dir m v = l3 (zlin_apply (mat_of_rows m) (v3 v)).
Proof.
  intros m v H. split; [apply mat_of_rows_affine|]. split; [now apply xform_point_mat|]. split.
  - rewrite (xform_point_mat m v H). unfold zmapply, zlin_apply.
    rewrite (xyz_mapply_point Z 0%Z 1%Z Z.add Z.mul Z.sub Z.opp Zth_mat). reflexivity.
  - now apply xform_dir_mat.
Qed.
Print Assumptions C10_binding_is_affine_action.

(* ---- the former finding (zero-corner polygons on an empty index), now repaired in /repo:
   accepted, two items, each with no corners, and iteration ends normally *)
Definition void_ins := [Inp 0 VERTEX (Src [[0;0;0];[1;0;0];[0;1;0]]%Z 3)].
Example C10_void_polygons_iterate :
  exists p, construct KPolylist void_ins None (SPolylist [] [0; 0]) = Ok p /\
            ilen (unbound p) = 2 /\
            option_map (map it_vertices) (match iter (unbound p) with Ok l => Some l | _ => None end) = Some [[]; []].
Proof. eexists. split; [vm_compute; reflexivity|]. split; vm_compute; reflexivity. Qed.

(* ---- Non-vacuity: a polylist with normals and two texcoord sets, three polygons (one of
   them a zero-corner polygon in the middle), bound with a rotation + translation *)
Definition ex_v := Src [[0;0;0];[1;0;0];[0;1;0];[0;0;1]]%Z 3.
Definition ex_n := Src [[0;0;1];[0;1;0]]%Z 3.
Definition ex_t := Src [[0;0];[1;0];[0;1]]%Z 2.
Definition ex_ins := [Inp 0 VERTEX ex_v; Inp 1 NORMAL ex_n; Inp 0 TEXCOORD ex_t; Inp 2 TEXCOORD ex_t].
Definition ex_stream := SPolylist [0;0;2; 1;1;0; 2;0;1;   2;1;1; 1;0;2; 0;1;0; 2;0;0]%N [3; 0; 4].

Example C10_nonvacuous :
  exists p, construct KPolylist ex_ins (Some 7%N) ex_stream = Ok p /\
    ilen (unbound p) = 3 /\
    option_map (map it_indices) (match iter (unbound p) with Ok l => Some l | _ => None end)
      = Some [[0;1;2]; []; [2;1;0;2]]%N /\
    option_map (map it_vertices)
      (match shapes (bind p [[0;-1;0;5];[1;0;0;0];[0;0;1;-2]]%Z [(7, 9)]%N) with Ok l => Some l | _ => None end)
      = Some [[[5;0;-2];[5;1;-2];[4;0;-2]]; []; [[4;0;-2];[5;1;-2];[5;0;-2];[4;0;-2]]]%Z /\
    ip_material (bind p [[0;-1;0;5];[1;0;0;0];[0;0;1;-2]]%Z [(7, 9)]%N) = Some 9%N.
Proof.
  eexists. split; [vm_compute; reflexivity|].
  vm_compute. repeat split.
Qed.

Example C10_empty_nonvacuous :
  exists p, construct KTri ex_ins None (SFlat []) = Ok p /\ p_nrows p = 0 /\
            iter (unbound p) = Ok [] /\ getitem (unbound p) 0 = Raise PyIndexError.
Proof. eexists. split; [vm_compute; reflexivity|]. vm_compute. repeat split. Qed.
