(* C12 - scene traversal yields every instance once, correctly transformed and bound.
   Statements only; proofs are in Proofs/Traverse.v.  [objects]/[scene_objects] (Model/
   Traverse.v) follow Node.objects, NodeNode.objects, the instance nodes and Scene.objects,
   with the matrices they pass on taken from Gen/Transforms.v, regenerated from scene.py on
   every run (numpy.dot argument order, what is handed to children and to instantiated
   nodes, the kind string each instance node answers to). *)
From Coq Require Import List Bool ZArith NArith.
From PC Require Import Base.Py Base.Mat Gen.Transforms Gen.Bound Model.Transforms Model.Traverse Proofs.Traverse.
Import ListNotations.

Definition is_ring {R : Type} (O : ops R) : Prop :=
  ring_theory (o0 O) (o1 O) (oadd O) (omul O) (osub O) (oopp O) (@eq R).

(* one bound object per instance path of the requested kind, in document (pre-order) order,
   through instantiated library nodes at any depth, each bound with the product of the node
   matrices from the root down the path *)
Theorem C12_objects_are_paths : forall R (O : ops R), is_ring O -> forall k (scene : list (snode R)),
  scene_objects O k scene =
  map (bind_path O) (filter (fun p => Nat.eqb (leaf_kind (snd p)) k) (scene_paths scene)).
Proof. exact scene_objects_are_paths. Qed.
Print Assumptions C12_objects_are_paths.

Theorem C12_one_object_per_path : forall R (O : ops R), is_ring O -> forall k (scene : list (snode R)),
  length (scene_objects O k scene) = length (filter (fun p => Nat.eqb (leaf_kind (snd p)) k) (scene_paths scene)).
Proof. exact scene_objects_count. Qed.
Print Assumptions C12_one_object_per_path.

(* the same statement below any node entered with matrix M (None at the scene root): the bound
   matrix is M times the product down the path *)
Theorem C12_subtree : forall R (O : ops R), is_ring O -> forall (n : snode R) k M,
  objects O k M n =
  map (fun p => (leaf_kind (snd p), leaf_target (snd p),
                 match M with Some m => mmul (oadd O) (omul O) m (path_matrix O p) | None => path_matrix O p end,
                 leaf_binds (snd p)))
      (filter (fun p => Nat.eqb (leaf_kind (snd p)) k) (paths n)).
Proof. exact objects_paths. Qed.
Print Assumptions C12_subtree.

(* the controller kind is the same statement: one bound controller per instance_controller path, bound with
   the product down the path ... *)
Theorem C12_controllers_are_paths : forall R (O : ops R), is_ring O -> forall (scene : list (snode R)),
  scene_objects O controller_node_kind scene =
  map (bind_path O) (filter (fun p => Nat.eqb (leaf_kind (snd p)) 1) (scene_paths scene)).
Proof. intros R O H scene. exact (scene_objects_are_paths R O H controller_node_kind scene). Qed.
Print Assumptions C12_controllers_are_paths.

(* ... and a bound skin binds its geometry with matrix . bind_shape_matrix (generated from BoundSkin.__init__):
   its vertices are M.(B.v), its normals M.(B.n), whichever class binds the primitive *)
Theorem C12_skin_geometry : forall R (O : ops R), is_ring O -> forall pk M B v,
  bound_vertex O pk (skin_matrix O M B) v =
    xyz (mapply (oadd O) (omul O) M (mapply (oadd O) (omul O) B (point (o1 O) v))) /\
  bound_normal O pk (skin_matrix O M B) v =
    xyz (mapply (oadd O) (omul O) M (mapply (oadd O) (omul O) B (direction (o0 O) v))).
Proof. intros R O H pk M B v. split; [exact (skin_vertices R O H pk M B v) | exact (skin_normals R O H pk M B v)]. Qed.
Print Assumptions C12_skin_geometry.

(* scene graphs built through the constructors: [objects] is a function of the tree alone (the theorems
   above quantify over every tree, however it came about); building in place composes - children appended
   to a node (or nodes appended to a scene) contribute their objects after those already there, and a
   material binding appended to an instance binds its symbol from then on *)
Theorem C12_built_in_place : forall R (O : ops R), is_ring O ->
  (forall k M own c1 c2, objects O k M (SNode own (c1 ++ c2)) = objects O k M (SNode own c1) ++ objects O k M (SNode own c2)) /\
  (forall k s1 s2, scene_objects O k (s1 ++ s2) = scene_objects O k s1 ++ scene_objects O k s2) /\
  (forall ctrl pk b s m, material_of ctrl pk (b ++ [(s, m)]) s = Some m) /\
  (forall ctrl pk b s s' m, s' <> s -> material_of ctrl pk (b ++ [(s', m)]) s = material_of ctrl pk b s).
Proof.
  intros R O H. repeat split.
  - exact (objects_children_app R O).
  - exact (scene_objects_app R O).
  - exact material_appended.
  - intros ctrl pk b s s' m Hne. rewrite (material_surplus_ignored ctrl pk b [] s' m s Hne), app_nil_r. reflexivity.
Qed.
Print Assumptions C12_built_in_place.

(* bound vertices are R.v + t and bound normals R.n for the bound matrix (any matrix), for each of the
   binding classes pk (0 BoundTriangleSet, 1 BoundPolylist/BoundPolygons, 2 BoundLineSet); the expressions
   are the ones regenerated from the three source files *)
Theorem C12_bound_vertices : forall R (O : ops R), is_ring O -> forall pk M v,
  bound_vertex O pk M v = xyz (mapply (oadd O) (omul O) M (point (o1 O) v)) /\
  bound_vertex O pk M v = vadd (oadd O) (lin_apply (oadd O) (omul O) M v) (translation (o0 O) M).
Proof. intros R O H pk M v. split; [exact (bound_vertex_is_apply R O H pk M v) | exact (bound_vertex_is_Rv_plus_t R O H pk M v)]. Qed.
Print Assumptions C12_bound_vertices.

Theorem C12_bound_normals : forall R (O : ops R), is_ring O -> forall pk M n,
  bound_normal O pk M n = xyz (mapply (oadd O) (omul O) M (direction (o0 O) n)) /\
  bound_normal O pk M n = lin_apply (oadd O) (omul O) M n.
Proof. intros R O H pk M n. split; [exact (bound_normal_is_apply R O H pk M n) | exact (bound_normal_is_Rn R O H pk M n)]. Qed.
Print Assumptions C12_bound_normals.

(* the material of a primitive is the one bound to its symbol on that instance: the last binding of the
   symbol; None when the symbol is not bound; other symbols do not matter - for the table built by
   GeometryNode.objects and by ControllerNode.objects (ctrl) and the look-up of each binding class *)
Theorem C12_material_lookup : forall ctrl pk b s,
  material_of ctrl pk b s = last_binding b s /\
  ((forall sm, In sm b -> fst sm <> s) -> material_of ctrl pk b s = None) /\
  (forall b1 b2 s' m, s' <> s -> material_of ctrl pk (b1 ++ (s', m) :: b2) s = material_of ctrl pk (b1 ++ b2) s) /\
  (forall b1 b2 m, (forall sm, In sm b2 -> fst sm <> s) -> material_of ctrl pk (b1 ++ (s, m) :: b2) s = Some m).
Proof.
  intros ctrl pk b s.
  exact (conj (material_is_last_binding ctrl pk b s) (conj (material_none ctrl pk b s)
        (conj (fun b1 b2 s' m => material_surplus_ignored ctrl pk b1 b2 s' m s) (fun b1 b2 m => material_last_wins ctrl pk b1 b2 s m)))).
Qed.
Print Assumptions C12_material_lookup.

(* lights and cameras (generated from light.py / camera.py): position = M.(0,0,0,1) (a point light:
   M.(its position, 1)), direction = M.(0,0,-1,0) (a directional light: M.(its direction, 0)), up = M.(0,1,0,0) *)
Theorem C12_lights_cameras : forall R (O : ops R), is_ring O -> forall M pos dir ck,
  let A := mapply (oadd O) (omul O) M in
  let o := o0 O in let i := o1 O in
  bound_light O 0 pos dir M = (Some (xyz (A (point i pos))), None, None) /\
  bound_light O 0 (o, o, o) dir M = (Some (translation o M), None, None) /\
  bound_light O 1 pos dir M = (None, Some (xyz (A (direction o dir))), None) /\
  bound_light O 2 pos dir M = (Some (xyz (A (o, o, o, i))), Some (xyz (A (o, o, oopp O i, o))), Some (xyz (A (o, i, o, o)))) /\
  bound_light O 3 pos dir M = (None, None, None) /\
  bound_camera O ck M = (xyz (A (o, o, o, i)), xyz (A (o, o, oopp O i, o)), xyz (A (o, i, o, o))).
Proof.
  intros R O H M pos dir ck.
  exact (conj (point_light_position_is R O H M pos dir) (conj (point_light_at_origin R O H M dir)
        (conj (directional_light_direction_is R O H M pos dir) (conj (spot_light_frame R O H M pos dir)
        (conj eq_refl (camera_frame R O H ck M)))))).
Qed.
Print Assumptions C12_lights_cameras.

(* ---- non-vacuity: a scene with a library node instantiated twice (once nested below another
   library node), non-commuting integer matrices; geometry 7 is reached by three paths, in
   document order, each with the product of its own path. *)
Definition ex_T : matZ := translate_matrix zops 1 2 3.
Definition ex_R : matZ := rotate_matrix zops 0 0 1 90.
Definition ex_S : matZ := scale_matrix zops 2 2 2.
Definition ex_lib1 : snode Z := SNode ex_R [SGeom 7 [(1, 10); (1, 11); (5, 12)]%N; SLight 3].
Definition ex_lib2 : snode Z := SNode ex_S [SInst ex_lib1; SCam 4].
Definition ex_scene : list (snode Z) :=
  [SNode ex_T [SInst ex_lib1; SNode ex_T [SInst ex_lib2]; SExtra]; SNode ex_S [SGeom 7 []]].

Example C12_scene_nonvacuous :
  map (fun b : bound Z => let '(_, g, M, _) := b in (g, mat_to_list M)) (scene_objects zops 0 ex_scene) =
  [(7%N, [0; -1; 0; 1;  1; 0; 0; 2;  0; 0; 1; 3;  0; 0; 0; 1]%Z);
   (7%N, [0; -2; 0; 2;  2; 0; 0; 4;  0; 0; 2; 6;  0; 0; 0; 1]%Z);
   (7%N, [2; 0; 0; 0;  0; 2; 0; 0;  0; 0; 2; 0;  0; 0; 0; 1]%Z)] /\
  length (scene_objects zops 3 ex_scene) = 2%nat /\ length (scene_objects zops 2 ex_scene) = 1%nat.
Proof. vm_compute. repeat split. Qed.
Example C12_material_nonvacuous :
  material_of false 0 [(1, 10); (1, 11); (5, 12)]%N 1%N = Some 11%N /\ material_of true 2 [(1, 10); (5, 12)]%N 2%N = None.
Proof. vm_compute. split; reflexivity. Qed.
Example C12_vertex_nonvacuous :
  bound_vertex zops 0 (zmmul ex_T ex_R) (1, 0, 0)%Z = (1, 3, 3)%Z /\ bound_normal zops 2 (zmmul ex_T ex_R) (1, 0, 0)%Z = (0, 1, 0)%Z /\
  bound_vertex zops 1 (skin_matrix zops ex_T ex_S) (1, 0, 0)%Z = (3, 2, 3)%Z.
Proof. vm_compute. repeat split. Qed.
