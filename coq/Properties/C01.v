(* C01 - write then load reproduces the document model; generation-1 fixed point.
   Statements only; proofs are in Proofs/RoundTrip.v.

   Status: the numeric part (float sources through '%.7g' / binary32, index streams) is
   proved from the hypothesis H_num_stable on the runtime's formatting and parsing, which
   ./check C01 exercises on every run.  The document theorem is PARTIAL: the codecs of the
   other classes are Section hypotheses, named after the properties whose theorems and
   correspondences discharge them (C06: emit/read, C05: load = read).  The clauses of the
   property are evaluated directly on the implementation on every run (harness/props/c01.py). *)
From Coq Require Import List ZArith Arith.
From PC Require Import Base.Atoms Base.Xml Base.Num Model.RoundTrip Proofs.RoundTrip.
From PC Require Import Model.Emit Proofs.Emit Model.RoundTripDoc Proofs.RoundTripDoc.   (* the C06 family *)
Import ListNotations.

(* For ANY class whose write/load satisfies the law (load o write = norm, norm idempotent):
   the first reloaded generation m1 reloads to itself, so does every later one, and the
   bytes written from generation 1 (g2) and from generation 2 (g3) are identical. *)
Theorem C01_gen1_fixed_point : forall (M B : Type) (c : codec M B), law c ->
  forall m0 m1 m2, reload c m0 = Some m1 -> reload c m1 = Some m2 ->
  m2 = m1 /\ gen_bytes c m2 = gen_bytes c m1 /\ reload c m2 = Some m2.
Proof.
  intros M B c L m0 m1 m2 H1 H2.
  destruct (gen1_bytes_fixed c L m0 m1 m2 H1 H2) as [E Hb]. subst m2.
  repeat split. eapply gen1_model_fixed; eassumption.
Qed.
Print Assumptions C01_gen1_fixed_point.

Theorem C01_write_after_load_total : forall (M B : Type) (c : codec M B), law c ->
  forall m0 m1, reload c m0 = Some m1 -> exists m2, reload c m1 = Some m2.
Proof. intros M B c L. exact (write_after_load_total c L). Qed.
Print Assumptions C01_write_after_load_total.

Section Numbers.
  Variable X T : Type.
  Variable fmt7 : X -> T.
  Variable parse32 : T -> X.
  Hypothesis H_num_stable : forall x, parse32 (fmt7 (parse32 (fmt7 x))) = parse32 (fmt7 x).

  (* a float source: what is loaded is the data to the seven digits written; loading what
     was written from that is the identity, and the tokens no longer change *)
  Theorem C01_source_roundtrip : forall d,
    let d1 := parse_floats X T parse32 (emit_floats X T fmt7 d) in
    let d2 := parse_floats X T parse32 (emit_floats X T fmt7 d1) in
    d1 = map (norm X T fmt7 parse32) d /\ d2 = d1 /\
    emit_floats X T fmt7 d2 = emit_floats X T fmt7 d1.
  Proof.
    intro d. simpl. split; [apply parse_emit_floats|]. exact (float_tokens_fixed X T fmt7 parse32 H_num_stable d).
  Qed.

  Theorem C01_source_codec_law : law (float_codec X T fmt7 parse32).
  Proof. exact (law_float X T fmt7 parse32 H_num_stable). Qed.

  Variable fmt_int : Z -> T.
  Variable parse_int : T -> option Z.
  Hypothesis H_int : forall z, parse_int (fmt_int z) = Some z.

  (* index streams come back exactly *)
  Theorem C01_index_roundtrip : forall l, parse_index T parse_int (emit_index T fmt_int l) = Some l.
  Proof. exact (parse_emit_index T fmt_int parse_int H_int). Qed.

  (* ---- composition: a document assembled from class fragments *)
  Section Document.
    (* Class codecs whose laws are discharged by other properties' theorems and
       correspondences.  M = model view of the class, B = its XML fragment. *)
    Variables (AssetM AssetB PrimMetaM PrimMetaB SrcMetaM SrcMetaB GeomMetaM GeomMetaB : Type).
    Variables (LightM LightB CamM CamB ImgM ImgB FxM FxB MatM MatB NodeM NodeB SceneM SceneB : Type).
    Variable asset_c : codec AssetM AssetB.
    Variable primmeta_c : codec PrimMetaM PrimMetaB.   (* kind, material, input table *)
    Variable srcmeta_c : codec SrcMetaM SrcMetaB.      (* id, components *)
    Variable geommeta_c : codec GeomMetaM GeomMetaB.   (* id, name, double_sided *)
    Variable light_c : codec LightM LightB.
    Variable cam_c : codec CamM CamB.
    Variable img_c : codec ImgM ImgB.
    Variable fx_c : codec FxM FxB.
    Variable mat_c : codec MatM MatB.
    Variable node_c : codec NodeM NodeB.               (* recursive node trees, transforms, instances *)
    Variable scene_c : codec SceneM SceneB.
    Hypothesis H_asset_C05_C06 : law asset_c.
    Hypothesis H_primmeta_C05_C06 : law primmeta_c.
    Hypothesis H_srcmeta_C05_C06 : law srcmeta_c.
    Hypothesis H_geommeta_C05_C06 : law geommeta_c.
    Hypothesis H_light_C05_C06 : law light_c.
    Hypothesis H_camera_C05_C06 : law cam_c.
    Hypothesis H_image_C05_C06 : law img_c.
    Hypothesis H_effect_C05_C06 : law fx_c.
    Hypothesis H_material_C05_C06_C07 : law mat_c.
    Hypothesis H_node_C05_C06_C07 : law node_c.
    Hypothesis H_scene_C05_C06_C07 : law scene_c.

    Definition source_c := pair_codec srcmeta_c (float_codec X T fmt7 parse32).
    Definition prim_c := pair_codec primmeta_c (index_codec T fmt_int parse_int).
    Definition geometry_c := pair_codec geommeta_c (pair_codec (list_codec source_c) (list_codec prim_c)).
    (* the nine libraries in the order Collada.save writes them, and the default scene by id *)
    Definition document_c :=
      pair_codec asset_c
      (pair_codec (list_codec geometry_c)
      (pair_codec (list_codec light_c)
      (pair_codec (list_codec cam_c)
      (pair_codec (list_codec img_c)
      (pair_codec (list_codec fx_c)
      (pair_codec (list_codec mat_c)
      (pair_codec (list_codec node_c)
      (pair_codec (list_codec scene_c) (option_codec (exact_codec nat)))))))))).

    (* FULL statement wanted:  wf_doc d -> load ns (emit d) = Ok d' /\ view d' = normdoc (view d)
       for the concrete DocSave/DocLoad models.  PROVED here: the same for a document assembled
       from class codecs, given the class laws (hypotheses above); the float and index parts
       are not hypotheses.  Missing: the concrete class codecs (C05/C06 families) and the
       cross-library reference environment (C07), which here lives inside the class laws. *)
    Theorem C01_doc_roundtrip_partial : law document_c.
    Proof.
      unfold document_c, geometry_c, source_c, prim_c.
      repeat (first [ apply law_pair | apply law_list | apply law_option | apply law_exact ]);
        try assumption.
      - exact (law_float X T fmt7 parse32 H_num_stable).
      - exact (law_index T fmt_int parse_int H_int).
    Qed.

    Theorem C01_doc_gen1_fixed_point_partial : forall d0 d1 d2,
      reload document_c d0 = Some d1 -> reload document_c d1 = Some d2 ->
      d2 = d1 /\ gen_bytes document_c d2 = gen_bytes document_c d1 /\ reload document_c d2 = Some d2.
    Proof. exact (C01_gen1_fixed_point _ _ document_c C01_doc_roundtrip_partial). Qed.
  End Document.
End Numbers.
Print Assumptions C01_source_roundtrip.
Print Assumptions C01_source_codec_law.
Print Assumptions C01_index_roundtrip.
Print Assumptions C01_doc_roundtrip_partial.
Print Assumptions C01_doc_gen1_fixed_point_partial.

(* ---- non-vacuity: an oracle that satisfies H_num_stable and is not the identity
   (parse rounds down to an even number: coarser than the tokens, like binary32 in
   [2^-10, 1e-3)).  Generation 1 of the text differs from generation 2; generations 2 and 3
   coincide; the loaded data are fixed from generation 1 on. *)
Definition ex_fmt (x : nat) : nat := x.
Definition ex_parse (t : nat) : nat := 2 * (t / 2).

Example C01_oracle_nonvacuous : forall x, ex_parse (ex_fmt (ex_parse (ex_fmt x))) = ex_parse (ex_fmt x).
Proof.
  intro x. unfold ex_parse, ex_fmt.
  replace (2 * (x / 2) / 2) with (x / 2); [reflexivity|].
  rewrite (Nat.mul_comm 2 (x / 2)). rewrite Nat.div_mul by discriminate. reflexivity.
Qed.

Example C01_generations_nonvacuous :
  let d0 := [1; 2; 3; 7] in
  let g1 := emit_floats nat nat ex_fmt d0 in
  let d1 := parse_floats nat nat ex_parse g1 in
  let g2 := emit_floats nat nat ex_fmt d1 in
  let d2 := parse_floats nat nat ex_parse g2 in
  let g3 := emit_floats nat nat ex_fmt d2 in
  g1 <> g2 /\ g2 = g3 /\ d2 = d1 /\ d1 = [0; 2; 2; 6].
Proof. vm_compute. repeat split; try reflexivity. discriminate. Qed.

Example C01_document_nonvacuous :
  let c := pair_codec (exact_codec nat) (list_codec (float_codec nat nat ex_fmt ex_parse)) in
  reload c (5, [[1; 2]; [3]]) = Some (5, [[0; 2]; [2]]) /\
  reload c (5, [[0; 2]; [2]]) = Some (5, [[0; 2]; [2]]).
Proof. vm_compute. split; reflexivity. Qed.

(* ==================================================================================
   Linked to the C06 family (Model/Emit.v, Proofs/Emit.v): the WRITE/READ half of the class
   codecs is no longer a hypothesis.  C06 proves  read_K (emit_K k) = Some k  for its XML-level
   class codecs; here these become C01 laws, and the document theorem is proved for the
   number-level document (float data through fmt7/parse32, everything else as in C06) from
   H_num_stable alone.
   These obligations depend on another family's files on purpose: if that family changes its
   model so that they no longer check, C01 reports a broken obligation.
   What REMAINS a hypothesis (not discharged anywhere in C01): the C05 half - that
   pycollada's loader computes what read_K reads (load_K = read_K on written documents) - and
   the tie emit_K = "constructor + save()" (C06's correspondence); numeric texts other than
   float-source data are opaque tokens here (their str/float32 round trip is checked by the
   direct oracle only); effects, images, asset are ids only in C06's Stage 1 document.
   ================================================================================== *)

Theorem C01_transform_codec_law : law (c06_codec emit_transform read_transform).
Proof. split; [exact read_emit_transform | reflexivity]. Qed.
Print Assumptions C01_transform_codec_law.

(* recursive node trees with transforms, the five instance kinds and material bindings *)
Theorem C01_node_codec_law : law (c06_codec emit_node read_node).
Proof. split; [exact read_emit_node | reflexivity]. Qed.
Print Assumptions C01_node_codec_law.

Theorem C01_material_codec_law : law (c06_codec emit_material read_material).
Proof. split; [exact read_emit_material | reflexivity]. Qed.
Print Assumptions C01_material_codec_law.

Theorem C01_prim_codec_law : law (c06_codec emit_prim read_prim).
Proof. split; [exact read_emit_prim | reflexivity]. Qed.
Print Assumptions C01_prim_codec_law.

Theorem C01_token_source_codec_law : forall arr, law (c06_codec (emit_source arr) read_source).
Proof. intro arr. split; [exact (read_emit_source arr) | reflexivity]. Qed.
Print Assumptions C01_token_source_codec_law.

(* classes whose writer is faithful on well-formed models only (canonical parameter order of
   lights and cameras; top-level children of a visual scene are nodes; VERTEX inputs go
   through <vertices>) *)
Theorem C01_light_codec_law : lawP wf_light (c06_codec emit_light read_light).
Proof. exact lawP_light. Qed.
Print Assumptions C01_light_codec_law.

Theorem C01_camera_codec_law : lawP wf_camera (c06_codec emit_camera read_camera).
Proof. exact lawP_camera. Qed.
Print Assumptions C01_camera_codec_law.

Theorem C01_scene_codec_law : lawP wf_scene (c06_codec emit_scene read_scene).
Proof. exact lawP_scene. Qed.
Print Assumptions C01_scene_codec_law.

Theorem C01_geometry_codec_law : forall arr, lawP wf_geometry (c06_codec (emit_geometry arr) read_geometry).
Proof. exact lawP_geometry. Qed.
Print Assumptions C01_geometry_codec_law.

(* any wf-conditional law gives the generation-1 fixed point on well-formed models *)
Theorem C01_gen1_fixed_point_wf : forall (M B : Type) (P : M -> Prop) (c : codec M B), lawP P c ->
  forall m0 m1 m2, P m0 -> reload c m0 = Some m1 -> reload c m1 = Some m2 ->
  P m1 /\ m2 = m1 /\ gen_bytes c m2 = gen_bytes c m1 /\ reload c m2 = Some m2.
Proof. intros M B P c L. exact (gen1_fixed_P P c L). Qed.
Print Assumptions C01_gen1_fixed_point_wf.

Section NumberDocument.
  Variable X : Type.
  Variable fmt7 : X -> tok.          (* '%.7g' % x as a token of the written text *)
  Variable parse32 : tok -> X.
  Hypothesis H_num_stable : forall x, parse32 (fmt7 (parse32 (fmt7 x))) = parse32 (fmt7 x).
  Variable arr : atom -> atom.

  (* a float source, from numbers down to the <source> element and back *)
  Theorem C01_number_source_codec_law : law (number_source_codec X fmt7 parse32 arr).
  Proof. exact (law_number_source X fmt7 parse32 H_num_stable arr). Qed.

  (* THE DOCUMENT (write/read half, no class hypotheses): geometries with number-level
     sources, primitives, lights, cameras, materials, library nodes, visual scenes, default
     scene.  PARTIAL with respect to the property: "load" is C06's independent reading
     read_doc, not yet pycollada's loader (C05 half), see the comment above. *)
  Theorem C01_number_doc_roundtrip_partial :
    lawP (wf_ndoc X fmt7) (number_doc_codec X fmt7 parse32 arr).
  Proof. exact (lawP_number_doc X fmt7 parse32 H_num_stable arr). Qed.

  Theorem C01_number_doc_gen1_fixed_point_partial : forall d0 d1 d2,
    wf_ndoc X fmt7 d0 ->
    reload (number_doc_codec X fmt7 parse32 arr) d0 = Some d1 ->
    reload (number_doc_codec X fmt7 parse32 arr) d1 = Some d2 ->
    d1 = norm_doc X fmt7 parse32 d0 /\ d2 = d1 /\
    gen_bytes (number_doc_codec X fmt7 parse32 arr) d2 = gen_bytes (number_doc_codec X fmt7 parse32 arr) d1.
  Proof.
    intros d0 d1 d2 W H1 H2.
    destruct (gen1_fixed_P _ _ C01_number_doc_roundtrip_partial d0 d1 d2 W H1 H2) as [_ [E [Hb _]]].
    split; [|split; assumption].
    destruct C01_number_doc_roundtrip_partial as [L1 _]. destruct (L1 d0 W) as [E0 _].
    unfold reload in H1. rewrite E0 in H1. inversion H1. reflexivity.
  Qed.
End NumberDocument.
Print Assumptions C01_number_source_codec_law.
Print Assumptions C01_number_doc_roundtrip_partial.
Print Assumptions C01_number_doc_gen1_fixed_point_partial.

(* non-vacuity: a well-formed number-level document (one geometry with a source and no
   primitive, a light, a camera, a material, a library node, a scene) under the rounding
   oracle of the examples above; its first reload is its normal form and that is a fixed point *)
Definition ex_fmt_tok (x : nat) : tok := TInt (Z.of_nat x).
Definition ex_parse_tok (t : tok) : nat := match t with TInt z => 2 * (Z.to_nat z / 2) | _ => 0 end.

Example C01_number_doc_nonvacuous :
  let src := {| n_id := 1000%N; n_data := [1; 2; 3; 7]; n_comps := [a_X; a_Y]; n_count := 4%Z; n_acount := 2%Z |} in
  let g := {| ng_id := AStr 1001%N; ng_name := None; ng_sources := [src]; ng_vid := 1002%N; ng_vref := 1000%N;
              ng_prims := []; ng_double_sided := true |} in
  let d := {| nd_geometries := [g];
              nd_lights := [{| l_id := AStr 1008%N; l_kind := LPoint; l_color := [TInt 1; TInt 0; TInt 0]; l_params := [] |}];
              nd_cameras := [{| c_id := AStr 1009%N; c_kind := COrthographic; c_params := [] |}];
              nd_images := [AStr 1010%N]; nd_effects := [AStr 1005%N];
              nd_materials := [{| m_id := AStr 1003%N; m_name := AStr 1004%N; m_effect := 1005%N |}];
              nd_nodes := [Node (Some (AStr 1006%N)) None [] [Inst IGeometry 1001%N []]];
              nd_scenes := [{| sc_id := AStr 1007%N; sc_nodes := [Node None None [] [Inst INode 1006%N []]] |}];
              nd_scene := Some 1007%N |} in
  let c := number_doc_codec nat ex_fmt_tok ex_parse_tok (fun a => (a + 1)%N) in
  reload c d = Some (norm_doc nat ex_fmt_tok ex_parse_tok d) /\
  norm_doc nat ex_fmt_tok ex_parse_tok d <> d /\
  reload c (norm_doc nat ex_fmt_tok ex_parse_tok d) = Some (norm_doc nat ex_fmt_tok ex_parse_tok d).
Proof. vm_compute. repeat split; try reflexivity. discriminate. Qed.

(* ==================================================================================
   H_num_stable over the exact definitions of Model/NumFmt.v ('%.7g' and the double-rounded
   binary32 parse, over Z; compared bit-exactly with the runtime on 20 000 values per run).
   PROVED (for every D in the range, by bounds on the two roundings, not by enumeration):
   the fine-grid lemma on [1,2) - binary32 spacing 2^-23 < seven-digit spacing 10^-6, so a
   seven-digit decimal is recovered from its float - and hence idempotence of parse32 o fmt7 at
   every number whose seven digits fall in [1,2).
   Also PROVED: the coarse-grid lemma on [2^-10, 10^-3) - binary32 spacing 2^-33 > seven-digit
   spacing 10^-10, so the float is recovered from its seven digits (while the decimal is NOT
   recovered from its float there) - and idempotence at every number that loads into that binade.
   MISSING for the full H_num_stable: the other binades of the fine and coarse regions (same
   scripts with other constants: [2,10), the other decades, [2^-30,1e-9), >= 2^33), the region
   boundaries (a float just below a power of ten that prints as that power), zero, and the link
   from NumFmt.norm to the abstract fmt7/parse32 of Base/Num.v.  H_num_stable therefore stays the Section hypothesis
   of the round-trip theorems above.
   ================================================================================== *)
From PC Require Model.NumFmt Proofs.NumFmt.

Theorem C01_fine_grid_recovers_decimal_partial : forall D, (1000000 <= D < 2000000)%Z ->
  let '(M, E) := NumFmt.parse32 D (-6) in NumFmt.fmt7 M E = (D, (-6)%Z).
Proof. exact Proofs.NumFmt.fine_grid_recovers_decimal_1_2. Qed.
Print Assumptions C01_fine_grid_recovers_decimal_partial.

Theorem C01_num_stable_fine_grid_partial : forall m e D,
  NumFmt.fmt7 m e = (D, (-6)%Z) -> (1000000 <= D < 2000000)%Z ->
  NumFmt.norm (fst (NumFmt.norm m e)) (snd (NumFmt.norm m e)) = NumFmt.norm m e.
Proof. exact Proofs.NumFmt.norm_idempotent_1_2. Qed.
Print Assumptions C01_num_stable_fine_grid_partial.

Theorem C01_coarse_grid_recovers_float_partial : forall M,
  (2 ^ 23 <= M < 2 ^ 24)%Z -> (M * 1000 < 2 ^ 33)%Z ->
  let '(D, q) := NumFmt.fmt7 M (-33) in NumFmt.parse32 D q = (M, (-33)%Z).
Proof. exact Proofs.NumFmt.coarse_grid_recovers_float. Qed.
Print Assumptions C01_coarse_grid_recovers_float_partial.

Theorem C01_num_stable_coarse_grid_partial : forall m e M,
  NumFmt.norm m e = (M, (-33)%Z) -> (2 ^ 23 <= M < 2 ^ 24)%Z -> (M * 1000 < 2 ^ 33)%Z ->
  NumFmt.norm (fst (NumFmt.norm m e)) (snd (NumFmt.norm m e)) = NumFmt.norm m e.
Proof. exact Proofs.NumFmt.norm_idempotent_coarse. Qed.
Print Assumptions C01_num_stable_coarse_grid_partial.

(* rounding half-even to a grid: within half a unit, and the only grid point strictly within *)
Theorem C01_half_even_rounding : forall num den, (0 <= num)%Z -> (0 < den)%Z ->
  (- den <= 2 * (num - NumFmt.div_half_even num den * den) <= den)%Z /\
  (forall D, (- den < 2 * (num - D * den) < den)%Z -> NumFmt.div_half_even num den = D).
Proof.
  intros num den Hn Hd. split; [exact (Proofs.NumFmt.dhe_spec num den Hn Hd) | intros D; exact (Proofs.NumFmt.dhe_unique num den D Hn Hd)].
Qed.
Print Assumptions C01_half_even_rounding.

(* non-vacuity: 1.234567 -> its binary32 10356299 * 2^-23 -> '%.7g' gives 1.234567 back *)
(* in the coarse binade the decimal 0.0009765629 is NOT recovered from its float (it prints as
   0.0009765628), but that float is recovered from what it prints *)
Example C01_coarse_grid_nonvacuous :
  NumFmt.parse32 9765629 (-10) = (8388611, -33)%Z /\ NumFmt.fmt7 8388611 (-33) = (9765628, -10)%Z /\
  NumFmt.parse32 9765628 (-10) = (8388611, -33)%Z.
Proof. vm_compute. repeat split; reflexivity. Qed.

Example C01_fine_grid_nonvacuous :
  NumFmt.parse32 1234567 (-6) = (10356299, -23)%Z /\ NumFmt.fmt7 10356299 (-23) = (1234567, -6)%Z.
Proof. vm_compute. split; reflexivity. Qed.

(* ==================================================================================
   H_num_stable, the covered regions (Proofs/NumFmtRegions.v is generated: the fine-grid argument
   above instantiated, with the constants of the cell, for each of 73 (decade, binade) cells;
   Proofs/NumFmtTable.v).  [covered D q] holds for the seven-digit decimals D*10^q with
   1e-12 <= value < 1e6 in every cell where binary32 is finer than seven decimal digits.
   NOT covered, i.e. still assumed by H_num_stable:
     - values in [1e6, 1e9) (decimal exponent q >= 0: other sign pattern of the definitions)
       and below 1e-12;
     - the coarse cells other than [2^-10,1e-3): [2^-20,1e-6), [2^-30,1e-9), [2^-40,1e-12)
       (the proved coarse lemma is the template);
     - region boundaries: the first decimal of each decade below 1 (10^d itself, d < 0, whose
       float may fall into the decade below), and the last few decimals of a binade whose
       binary64 image lies within 2^-25 (relative) of the next power of two;
     - the link between NumFmt.norm and the abstract fmt7/parse32 of Base/Num.v.
   ================================================================================== *)
From PC Require Proofs.NumFmtRegions Proofs.NumFmtTable.

Theorem C01_fine_grid_covered_partial : forall D q, NumFmtRegions.covered D q = true ->
  let '(M, E) := NumFmt.parse32 D q in NumFmt.fmt7 M E = (D, q).
Proof. exact NumFmtRegions.fine_grid_covered. Qed.
Print Assumptions C01_fine_grid_covered_partial.

(* zero, every fine cell of the table, and the coarse binade [2^-10, 10^-3) *)
Theorem C01_num_stable_regions_partial : forall m e, NumFmtTable.in_covered_region m e ->
  NumFmt.norm (fst (NumFmt.norm m e)) (snd (NumFmt.norm m e)) = NumFmt.norm m e.
Proof. exact NumFmtTable.num_stable_regions. Qed.
Print Assumptions C01_num_stable_regions_partial.

(* the sign is copied by both operations: the same for negative numbers *)
Theorem C01_num_stable_regions_signed_partial : forall s m e, NumFmtTable.in_covered_region m e ->
  NumFmtTable.snorm (NumFmtTable.snorm (s, m, e)) = NumFmtTable.snorm (s, m, e).
Proof. exact NumFmtTable.num_stable_regions_signed. Qed.
Print Assumptions C01_num_stable_regions_signed_partial.

(* the table at work: 1234.567, 0.01234567 and 5e-12 are in fine cells; 0.0009765629 (coarse
   binade), 0.001 (first decimal of a decade below 1) and 1234567 (>= 1e6) are not *)
Example C01_covered_nonvacuous :
  NumFmtRegions.covered 1234567 (-3) = true /\ NumFmtRegions.covered 1234567 (-8) = true /\
  NumFmtRegions.covered 5000000 (-18) = true /\
  NumFmtRegions.covered 9765629 (-10) = false /\ NumFmtRegions.covered 1000000 (-9) = false /\
  NumFmtRegions.covered 1234567 0 = false.
Proof. vm_compute. repeat split; reflexivity. Qed.
