(* C01 linked to C06: class-codec hypotheses of C01_doc_roundtrip_partial discharged, for the
   WRITE/READ half, by the C06 family's emit_read theorems (Proofs/Emit.v).

   This file is not part of ./check C01's obligations (so that an edit in the C06 family cannot
   break C01's check); it is compiled by the full build (setup.sh / make) and by coqchk.

   What is shown: the C06 class codecs  (emit_K, read_K, identity)  satisfy C01's [law], hence
   C01_gen1_fixed_point applies to them; and a float source at the NUMBER level (data as
   numbers, through the oracle fmt7 / parse32 of Base/Num.v) composed with C06's XML-level
   emit_source / read_source satisfies the law with  norm = map (parse32 o fmt7)  given only
   H_num_stable.  What remains a hypothesis for these classes is C05's half: the loader
   computes what read_K reads. *)
From Coq Require Import List ZArith NArith.
From PC Require Import Base.Atoms Base.Xml Base.Num Model.RoundTrip Proofs.RoundTrip Model.Emit Proofs.Emit.
Import ListNotations.

Definition c06_codec {K} (emit : K -> xml) (read : xml -> option K) : codec K xml :=
  Codec emit read (fun k => k).

Theorem C01_transform_codec_law : law (c06_codec emit_transform read_transform).
Proof. split; [exact read_emit_transform | reflexivity]. Qed.
Print Assumptions C01_transform_codec_law.

(* recursive node trees with transforms, the five instance kinds and material bindings *)
Theorem C01_node_codec_law : law (c06_codec emit_node read_node).
Proof. split; [exact read_emit_node | reflexivity]. Qed.
Print Assumptions C01_node_codec_law.

Theorem C01_material_codec_law : law (c06_codec emit_material read_material).
Proof. split; [exact read_emit_material | reflexivity]. Qed.
Print Assumptions C01_material_codec_law.

Theorem C01_prim_codec_law : law (c06_codec emit_prim read_prim).
Proof. split; [exact read_emit_prim | reflexivity]. Qed.
Print Assumptions C01_prim_codec_law.

Theorem C01_token_source_codec_law : forall arr, law (c06_codec (emit_source arr) read_source).
Proof. intro arr. split; [exact (read_emit_source arr) | reflexivity]. Qed.
Print Assumptions C01_token_source_codec_law.

(* libraries of nodes and materials: written, read back, and fixed from then on *)
Theorem C01_node_library_fixed_point : forall l0 l1 l2,
  let c := list_codec (c06_codec emit_node read_node) in
  reload c l0 = Some l1 -> reload c l1 = Some l2 -> l2 = l1 /\ gen_bytes c l2 = gen_bytes c l1.
Proof.
  intros l0 l1 l2 c H1 H2.
  exact (gen1_bytes_fixed c (law_list _ C01_node_codec_law) l0 l1 l2 H1 H2).
Qed.
Print Assumptions C01_node_library_fixed_point.

(* ---- a float source at the number level, down to the XML element *)
Section NumberSource.
  Variable X : Type.
  Variable fmt7 : X -> tok.          (* '%.7g' % x, as a token of the written text *)
  Variable parse32 : tok -> X.
  Hypothesis H_num_stable : forall x, parse32 (fmt7 (parse32 (fmt7 x))) = parse32 (fmt7 x).
  Variable arr : atom -> atom.       (* id of the float_array of a source id *)

  Record nsource := { n_id : atom; n_data : list X; n_comps : list atom; n_count : Z; n_acount : Z }.

  Definition to_tokens (s : nsource) : source :=
    {| s_id := n_id s; s_data := emit_floats X tok fmt7 (n_data s); s_comps := n_comps s;
       s_count := n_count s; s_acount := n_acount s |}.
  Definition of_tokens (s : source) : nsource :=
    {| n_id := s_id s; n_data := parse_floats X tok parse32 (s_data s); n_comps := s_comps s;
       n_count := s_count s; n_acount := s_acount s |}.
  Definition norm_source (s : nsource) : nsource :=
    {| n_id := n_id s; n_data := map (norm X tok fmt7 parse32) (n_data s); n_comps := n_comps s;
       n_count := n_count s; n_acount := n_acount s |}.

  Definition number_source_codec : codec nsource xml :=
    Codec (fun s => emit_source arr (to_tokens s))
          (fun x => option_map of_tokens (read_source x))
          norm_source.

  Theorem C01_number_source_codec_law : law number_source_codec.
  Proof.
    split.
    - intro s. simpl. rewrite read_emit_source. simpl. unfold of_tokens, norm_source, to_tokens. simpl.
      rewrite parse_emit_floats. reflexivity.
    - intro s. unfold number_source_codec, norm_source. simpl.
      rewrite (map_norm_idem X tok fmt7 parse32 H_num_stable). reflexivity.
  Qed.

  (* the <source> element written from the first reloaded generation is the one every later
     generation writes *)
  Theorem C01_number_source_fixed_point : forall s0 s1 s2,
    reload number_source_codec s0 = Some s1 -> reload number_source_codec s1 = Some s2 ->
    s2 = s1 /\ gen_bytes number_source_codec s2 = gen_bytes number_source_codec s1.
  Proof. exact (gen1_bytes_fixed number_source_codec C01_number_source_codec_law). Qed.
End NumberSource.
Print Assumptions C01_number_source_codec_law.
Print Assumptions C01_number_source_fixed_point.
