(* C11 - strip/fan expansion and polylist/polygons triangulation preserve geometry and winding.
   Statements only; proofs are in Proofs/Strips.v and Proofs/Triangulate.v.  The strip / fan
   theorems are about the definitions of Gen/Strips.v, the load / triangulation / per-polygon /
   bound theorems about those of Gen/Triangulate.v; both files are regenerated from
   collada/triangleset.py and collada/polylist.py on every build.

   Rows: one row = the indices of all inputs of one vertex of the primitive.  All functions are
   polymorphic in the row type, so "every input's index is carried along" and "normals and
   texcoords stay attached to the same corners" are the naturality theorems together with the
   label theorems: whatever the rows contain, the result is the label-level result read in the
   rows (at_rows). *)
From Coq Require Import List ZArith Arith.
From PC Require Import Base.Outcome Base.Py Base.PySlice Base.NpProg Gen.Strips Gen.Triangulate Model.Strips Model.Triangulate
                       Proofs.Strips Proofs.Triangulate.
Import ListNotations.
Local Open Scope nat_scope.

(* ---- the operations only move whole rows *)
Theorem C11_strip_natural : forall (A B : Type) (f : A -> B) rows,
  strip (map f rows) = omap (map (tri_map f)) (strip rows).
Proof. exact @strip_natural. Qed.
Print Assumptions C11_strip_natural.

Theorem C11_fan_natural : forall (A B : Type) (f : A -> B) rows,
  fan (map f rows) = omap (map (tri_map f)) (fan rows).
Proof. exact @fan_natural. Qed.
Print Assumptions C11_fan_natural.

Theorem C11_triangulate_natural : forall (A B : Type) (f : A -> B) vc rows,
  triangleset vc (map f rows) = omap (map (tri_map f)) (triangleset vc rows).
Proof. exact @triangleset_natural. Qed.
Print Assumptions C11_triangulate_natural.

(* ---- a strip of n vertices, for every n: triangles k = (k,k+1,k+2), first two corners swapped
   for odd k; never an error *)
Theorem C11_strip_spec : forall n, strip (seq 0 n) = Ok (strip_spec n).
Proof. exact strip_labels. Qed.
Print Assumptions C11_strip_spec.

Theorem C11_fan_spec : forall n, fan (seq 0 n) = Ok (fan_spec n).
Proof. exact fan_labels. Qed.
Print Assumptions C11_fan_spec.

(* ... hence for arbitrary rows (labels need not even be distinct) *)
Theorem C11_strip_rows : forall (A : Type) (d : A) rows,
  strip rows = Ok (at_rows d rows (strip_spec (length rows))).
Proof. exact @strip_rows. Qed.
Print Assumptions C11_strip_rows.

Theorem C11_fan_rows : forall (A : Type) (d : A) rows,
  fan rows = Ok (at_rows d rows (fan_spec (length rows))).
Proof. exact @fan_rows. Qed.
Print Assumptions C11_fan_rows.

(* n-2 triangles, none for n <= 2 (truncated subtraction) *)
Theorem C11_expand_count : forall kd n, length (expand_spec kd n) = n - 2.
Proof. exact expand_spec_length. Qed.
Print Assumptions C11_expand_count.

(* every <p> is expanded on its own and the results are concatenated in document order
   (iteration order, reshape width max_offset+1 and concatenation order are the generated ones) *)
Theorem C11_multi_p : forall (A : Type) (d : A) kd max_offset (ps : list (list A)),
  ps <> [] -> Forall (fun p => length p mod (S max_offset) = 0) ps ->
  load_expand kd max_offset ps = Ok (concat (map (p_triangles d kd (S max_offset)) ps)).
Proof. exact @load_expand_multi_p. Qed.
Print Assumptions C11_multi_p.

(* _indexExtendFunctions sends each tag to its own expansion *)
Theorem C11_load_dispatch : ext_of KStrips = EStrip /\ ext_of KFans = EFan.
Proof. split; reflexivity. Qed.
Print Assumptions C11_load_dispatch.

Theorem C11_rows_per_p : forall (A : Type) k (p : list A),
  k > 0 -> length p mod k = 0 -> length (chunk k p) = length p / k.
Proof. exact @chunk_length. Qed.
Print Assumptions C11_rows_per_p.

(* ---- triangulation: for every vector of polygon lengths (zeros, ones, twos anywhere) the
   numpy sequence of Polylist.triangleset succeeds and yields the fan around each polygon's
   first corner, in polygon order *)
Theorem C11_triangulate_labels : forall vc, triangleset vc (seq 0 (total vc)) = Ok (tri_labels vc).
Proof. exact triangleset_labels. Qed.
Print Assumptions C11_triangulate_labels.

Theorem C11_triangulate_fan : forall (A : Type) vc (rows : list A),
  length rows = total vc -> triangleset vc rows = Ok (tri_spec vc rows).
Proof. exact @triangleset_spec. Qed.
Print Assumptions C11_triangulate_fan.

Theorem C11_triangulate_count : forall (A : Type) vc (rows : list A),
  length rows = total vc -> length (tri_spec vc rows) = total (map (fun c => c - 2) vc).
Proof. exact @tri_spec_length. Qed.
Print Assumptions C11_triangulate_count.

(* Polygon.triangles() of every polygon (generated subscripts), concatenated, is the whole-primitive
   triangulation (generated clears and gathers); no subscript is ever out of range *)
Theorem C11_per_polygon_agrees : forall (A : Type) vc (rows : list A),
  length rows = total vc ->
  triangleset vc rows = omap (@concat _) (omapM poly_triangles (polygon_rows vc rows)).
Proof. intros A vc rows H. rewrite per_polygon_is_spec. apply triangleset_spec. exact H. Qed.
Print Assumptions C11_per_polygon_agrees.

Theorem C11_polygon_is_fan : forall (A : Type) (poly : list A), poly_triangles poly = Ok (fan_of poly).
Proof. exact @poly_triangles_fan. Qed.
Print Assumptions C11_polygon_is_fan.

(* indices, vertices, normals, normal_indices, texcoords and texcoord_indices of a polygon are all cut
   with the same three subscripts: data and indices of every input stay on the same corner *)
Theorem C11_polygon_arrays_same_corners :
  poly_vertices = poly_indices /\ poly_normals = poly_indices /\ poly_normal_indices = poly_indices /\
  poly_texcoords = poly_indices /\ poly_texcoord_indices = poly_indices.
Proof. exact polygon_arrays_same. Qed.
Print Assumptions C11_polygon_arrays_same_corners.

(* ---- the bound path: a BoundTriangleSet carries the very index attributes of the unbound set,
   and BoundPolylist.triangleset() is the bound unbound triangulation *)
Theorem C11_bound_keeps_rows : forall (V : Type) (unbound : tsfield -> V) f,
  bound_attr unbound f = Some (unbound f).
Proof. exact @bound_attr_copy. Qed.
Print Assumptions C11_bound_keeps_rows.

Theorem C11_bound_triangulate_fan : forall (A : Type) vc (rows : list A),
  length rows = total vc -> bound_triangleset vc rows = Ok (Some (tri_spec vc rows)).
Proof. intros A vc rows H. rewrite bound_triangleset_eq, triangleset_spec by exact H. reflexivity. Qed.
Print Assumptions C11_bound_triangulate_fan.

(* <polygons>: the vcounts derived from the <p> lengths cut the concatenated index back into
   exactly the rows of each <p>, so the triangulation theorems apply per <p> *)
Theorem C11_polygons_vcounts : forall (A : Type) k (ps : list (list A)),
  k > 0 -> Forall (fun p => length p mod k = 0) ps ->
  polygons_rows k ps = Ok (concat (map (chunk k) ps)) /\
  split_by (polygons_vcounts k ps) (concat (map (chunk k) ps)) = map (chunk k) ps /\
  length (concat (map (chunk k) ps)) = total (polygons_vcounts k ps).
Proof. exact @polygons_split. Qed.
Print Assumptions C11_polygons_vcounts.

(* ---- non-vacuity *)
Example C11_strip_nonvacuous :
  strip [10; 11; 12; 13; 14; 15; 16]%N
  = Ok [(10, 11, 12); (12, 13, 14); (14, 15, 16); (12, 11, 13); (14, 13, 15)]%N
  /\ strip_spec 7 = [(0, 1, 2); (2, 3, 4); (4, 5, 6); (2, 1, 3); (4, 3, 5)]
  /\ strip [1; 2]%N = Ok [] /\ strip (@nil N) = Ok [].
Proof. vm_compute. repeat split; reflexivity. Qed.

Example C11_fan_nonvacuous :
  fan [[10; 0]; [11; 1]; [12; 2]; [13; 3]; [14; 4]]%N
  = Ok [([10; 0], [11; 1], [12; 2]); ([10; 0], [12; 2], [13; 3]); ([10; 0], [13; 3], [14; 4])]%N
  /\ fan [7]%N = Ok [] /\ fan (@nil N) = Ok [].
Proof. vm_compute. repeat split; reflexivity. Qed.

Example C11_multi_p_nonvacuous :
  load_expand KStrips 1 [[1; 2; 3; 4; 5; 6; 7; 8]; []; [9; 10]; [11; 12; 13; 14; 15; 16]]%N
  = Ok [([1; 2], [3; 4], [5; 6]); ([5; 6], [3; 4], [7; 8]); ([11; 12], [13; 14], [15; 16])]%N.
Proof. vm_compute. reflexivity. Qed.

Example C11_polygons_nonvacuous :
  polygons_vcounts 2 [[1; 2; 3; 4; 5; 6; 7; 8]; []; [9; 10; 11; 12; 13; 14]]%N = [4; 0; 3]
  /\ polygons_rows 2 [[1; 2; 3; 4; 5; 6; 7; 8]; []; [9; 10; 11; 12; 13; 14]]%N
     = Ok [[1; 2]; [3; 4]; [5; 6]; [7; 8]; [9; 10]; [11; 12]; [13; 14]]%N.
Proof. vm_compute. split; reflexivity. Qed.

Example C11_triangulate_nonvacuous :
  let vc := [0; 4; 1; 0; 5; 2; 3] in
  total vc = 15 /\
  triangleset vc (seq 100 15)
  = Ok [(100, 101, 102); (100, 102, 103); (105, 106, 107); (105, 107, 108); (105, 108, 109); (112, 113, 114)]
  /\ triangleset [0; 1] [5%N] = Ok [] /\ triangleset [0] (@nil N) = Ok []
  /\ omapM poly_triangles (polygon_rows [4; 1; 3] (seq 0 8)) = Ok [[(0, 1, 2); (0, 2, 3)]; []; [(5, 6, 7)]]
  /\ bound_triangleset [4] (seq 0 4) = Ok (Some [(0, 1, 2); (0, 2, 3)]).
Proof. vm_compute. repeat split; reflexivity. Qed.
