(* C15 - loading is independent of the namespace URI.  Statements only (proofs: Proofs/Namespace.v).

   The load model (Model/LoadDoc.v) is a function of the ERASED tree (Model/Namespace.v): of an
   element's qualified tag it can only see "local name, if the element is in the namespace the
   document's tag function uses".  That is the formal content of "every tag test goes through
   collada.tag"; the sites that did not (IDRefSource.load / NameSource.load, fixed in /repo c73fa9d)
   read the `hard` field, whose namespace is a parameter of [erase]. *)
From Coq Require Import List Bool ZArith NArith.
From PC Require Import Base.Atoms Base.Xml Base.Outcome Model.LoadPrim Model.Namespace Model.LoadDoc Proofs.Namespace.
Import ListNotations.

(* whatever is computed from the erased tree is unchanged by renaming the document's namespace to
   any URI the document does not already use for a foreign element (foreign elements are left alone) *)
Theorem C15_erased_view_invariant : forall (A : Type) (f : et -> A) x ns',
  uses_ns ns' x = false -> f (erase_now (retag_doc ns' x)) = f (erase_now x).
Proof. intros A f x ns' H. now rewrite erase_now_retag. Qed.
Print Assumptions C15_erased_view_invariant.

(* the loaded model (every library, incl. controllers and animations) and the raised / recorded
   error are the same: [load_doc] returns either the whole view or the exception class *)
Theorem C15_ns_parametric : forall numtab x ns',
  uses_ns ns' x = false ->
  load_doc numtab (erase_now (retag_doc ns' x)) = load_doc numtab (erase_now x) /\
  read_doc numtab (erase_now (retag_doc ns' x)) = read_doc numtab (erase_now x).
Proof. intros numtab x ns' H. split; now rewrite erase_now_retag. Qed.
Print Assumptions C15_ns_parametric.

(* the same with the recorded errors made explicit.  The model is of a load with an empty error mask:
   handleError appends the error to Collada.errors and re-raises, so the recorded list is empty when the load
   completes and holds exactly the error that aborted it otherwise. *)
Definition recorded_errors {A} (o : outcome A) : list exn := match o with Ok _ => [] | Raise e => [e] end.
Definition loaded_view {A} (o : outcome A) : option A := match o with Ok v => Some v | Raise _ => None end.

Theorem C15_ns_parametric_errors : forall numtab x ns',
  uses_ns ns' x = false ->
  recorded_errors (load_doc numtab (erase_now (retag_doc ns' x))) = recorded_errors (load_doc numtab (erase_now x)) /\
  loaded_view (load_doc numtab (erase_now (retag_doc ns' x))) = loaded_view (load_doc numtab (erase_now x)).
Proof. intros numtab x ns' H. now rewrite erase_now_retag. Qed.
Print Assumptions C15_ns_parametric_errors.

(* renaming is the identity when the URI is the document's own *)
Theorem C15_retag_same : forall x, retag_doc (xns x) x = x.
Proof. intro x. apply retag_same. Qed.
Print Assumptions C15_retag_same.

(* the smallest document with a Name_array: an animation whose interpolation source is one *)
Definition c15_witness (ns : atom) : xml :=
  El 1 ns a_COLLADA [] None
    [El 2 ns a_library_animations [] None
       [El 3 ns a_animation [(a_id, AStr 1000)] None
          [El 5 ns a_source [(a_id, AStr 1002)] None
             [El 6 ns a_Name_array [(a_count, AInt 1)] (Some [TWord a_LINEAR]) [];
              El 7 ns a_technique_common [] None
                [El 8 ns a_accessor [(a_count, AInt 1)] None
                   [El 9 ns a_param [(a_name, AStr a_INTERPOLATION); (a_type, AStr a_Name)] None []]]]]]]%N.

(* non-vacuity of C15_ns_parametric: the witness loads, its animation carries the source, and the
   1.5 namespace is fresh for it *)
Example C15_witness_loads :
  uses_ns a_ns15 (c15_witness a_ns141) = false /\
  retag_doc a_ns15 (c15_witness a_ns141) = c15_witness a_ns15 /\
  exists v, load_doc [] (erase_now (c15_witness a_ns15)) = Ok v /\ load_doc [] (erase_now (c15_witness a_ns141)) = Ok v.
Proof. split; [reflexivity|]. split; [reflexivity|]. eexists. split; vm_compute; reflexivity. Qed.

(* the code as it was before /repo c73fa9d (Name/IDREF source sites testing the 1.4.1 namespace whatever
   the document says) is NOT namespace-parametric: in the 1.5 namespace the Name_array is not
   found and the animation fails with DaeIncompleteError *)
Theorem C15_hardwired_site_refuted :
  uses_ns a_ns15 (c15_witness a_ns141) = false /\
  load_doc [] (erase_before_fix (retag_doc a_ns15 (c15_witness a_ns141))) = Raise DaeIncomplete /\
  load_doc [] (erase_before_fix (c15_witness a_ns141)) <> Raise DaeIncomplete.
Proof. split; [reflexivity|]. split; [vm_compute; reflexivity | vm_compute; discriminate]. Qed.
Print Assumptions C15_hardwired_site_refuted.
