(* C16 - the container does not matter: path, file object, zip member.
   Statements only; proofs are in Proofs/Container.v.  Names are lists of path components
   (atoms carrying the ".dae"-suffix class and the "MACOSX"-substring class of the component). *)
From Coq Require Import List Bool NArith.
From PC Require Import Base.Outcome Model.Container Proofs.Container.
Import ListNotations.
Open Scope N_scope.

(* ---- member selection (Collada.__init__, zip branch) *)

(* Whatever the positions of the decoys (first, several, between, last): when the archive has a
   member with the suffix that is not a decoy, the first such member in archive order is the
   one that is loaded. *)
Theorem C16_select_member : forall names n,
  first_non_decoy names = Some n -> select_member names None = Ok n.
Proof. exact select_first_non_decoy. Qed.
Print Assumptions C16_select_member.

(* The complete behaviour of the automatic choice.  The third case is NOT what the property
   asks ("an archive without a document is reported as such"): with only decoys the scan
   ends on the last decoy, which is then parsed. *)
Theorem C16_select_member_total : forall names,
  select_member names None =
  match first_non_decoy names with
  | Some n => Ok n
  | None => match filter is_dae names with
            | [] => Raise DaeIncomplete
            | d :: ds => Ok (last ds d)
            end
  end.
Proof. exact select_auto_total. Qed.
Print Assumptions C16_select_member_total.

Theorem C16_select_no_document : forall names,
  filter is_dae names = [] -> select_member names None = Raise DaeIncomplete.
Proof. exact select_no_dae. Qed.
Print Assumptions C16_select_no_document.

(* zip_filename: that member when it is one (and not ''), DaeIncomplete otherwise *)
Theorem C16_select_by_name : forall names z,
  select_member names (Some z) =
  if negb (is_empty_name z) && mem z names then Ok z else Raise DaeIncomplete.
Proof. exact select_by_name. Qed.
Print Assumptions C16_select_by_name.

Theorem C16_select_fails_only_incomplete : forall names z e,
  select_member names z = Raise e -> e = DaeIncomplete.
Proof. exact select_only_incomplete. Qed.
Print Assumptions C16_select_fails_only_incomplete.

Theorem C16_selected_is_member : forall names z n, select_member names z = Ok n -> In n names.
Proof. exact select_is_member. Qed.
Print Assumptions C16_selected_is_member.

(* "DaeIncomplete whenever there is no non-decoy document" is refuted by an archive that holds
   only a resource fork: the decoy is selected. *)
Theorem C16_select_only_decoys_refuted :
  exists names, first_non_decoy names = None /\
                select_member names None <> Raise DaeIncomplete.
Proof.
  (* __MACOSX/._doc.dae : component 3 contains MACOSX (16*3+4), component 4 ends in .dae (16*4+1) *)
  exists [[52; 65]]. split; [reflexivity | vm_compute; discriminate].
Qed.
Print Assumptions C16_select_only_decoys_refuted.

(* ---- normpath *)

(* relative paths (./x, sub/x, ../x ...): normpath designates the same file *)
Theorem C16_normpath_sound : forall fs p,
  nslashes p = 0%nat -> walk fs (normpath p) = walk fs p.
Proof. exact normpath_sound_relative. Qed.
Print Assumptions C16_normpath_sound.

(* absolute paths: the same location under the rooted walk ("/.." is "/") *)
Theorem C16_normpath_sound_rooted : forall p,
  nslashes p <> 0%nat -> walk_from true [] (normpath p) = walk_from true [] p.
Proof. exact normpath_sound_rooted. Qed.
Print Assumptions C16_normpath_sound_rooted.

Theorem C16_normpath_idempotent : forall p, normpath (normpath p) = normpath p.
Proof. exact normpath_idempotent. Qed.
Print Assumptions C16_normpath_idempotent.

(* a strict walk in a tree-shaped file system (directories must exist to be entered or left)
   that succeeds ends at the location the lexical walk computes *)
Theorem C16_strict_walk_agrees : forall root p anc cur loc0 t,
  chain root anc cur loc0 -> tree_walk anc cur p = Some t ->
  exists loc, walk_from false (rev loc0) p = Some loc /\ tree_at root loc = Some t.
Proof. intros root p. exact (strict_walk_agrees root p). Qed.
Print Assumptions C16_strict_walk_agrees.

(* ---- auxiliary files *)

(* a document at [dir]/[file] inside an archive: a relative path is looked up from [dir];
   nothing is found outside the archive or at a directory *)
Theorem C16_aux_relative : forall ms dir file f disk user,
  sane ms = true -> clean dir = true -> is_abs f = false ->
  resolve (RZip ms (dir ++ [file])) disk user f = of_option DaeBrokenRef (walk_in ms dir f).
Proof. exact aux_relative_zip. Qed.
Print Assumptions C16_aux_relative.

Theorem C16_aux_relative_disk : forall dir file f disk user,
  sane disk = true -> clean dir = true -> is_abs f = false ->
  resolve (RDisk (dir ++ [file])) disk user f = of_option DaeBrokenRef (walk_in disk dir f).
Proof. exact aux_relative_disk. Qed.
Print Assumptions C16_aux_relative_disk.

(* with a user loader, whatever the source kind and the archive, the loader alone answers,
   on the path exactly as the document writes it, and the document selected is the same *)
Theorem C16_user_loader_wins : forall k c z d r disk user f,
  open_container k c z true = Ok (d, r) ->
  resolve r disk user f = match user f with Some x => Ok x | None => Raise DaeBrokenRef end /\
  omap fst (open_container k c z false) = Ok d.
Proof.
  intros k c z d r disk user f H. pose proof (user_loader_resolver _ _ _ _ _ H) as R. subst r. split.
  - apply resolve_user.
  - rewrite <- user_loader_data. rewrite H. reflexivity.
Qed.
Print Assumptions C16_user_loader_wins.

(* an auxiliary file that cannot be found is a broken reference, and nothing else *)
Theorem C16_missing_is_brokenref : forall r disk user f e,
  resolve r disk user f = Raise e -> e = DaeBrokenRef.
Proof. exact resolve_only_brokenref. Qed.
Print Assumptions C16_missing_is_brokenref.

Theorem C16_no_resolver_is_brokenref : forall disk user f,
  resolve RNull disk user f = Raise DaeBrokenRef.
Proof. reflexivity. Qed.
Print Assumptions C16_no_resolver_is_brokenref.

(* ---- what a load depends on *)

(* "The rest of __init__ ignores the container", made explicit: the loaded model is
   [loader d behaviour] for an ARBITRARY function loader of the selected bytes d and of the
   resolver's behaviour (auxiliary path -> outcome); see Model/Container.v load_model.  That
   pycollada's loading really is such a function is checked on every run by the snapshot
   comparison across containers; the theorems say what then follows. *)

(* with a user loader: path, file object, automatically selected member and named member that
   hold the bytes d give literally the same (bytes, behaviour) pair, hence the same model,
   whatever is on disk *)
Theorem C16_same_bytes_same_model : forall (model : Type) (loader : N -> (name -> outcome N) -> model)
    d f ms n m k1 k2 z uf disk1 disk2 disk3 disk4,
  NoDup (map fst ms) -> first_non_decoy (map fst ms) = Some n -> In (n, d) ms ->
  is_empty_name m = false -> In (m, d) ms ->
  let expected := Ok (loader d (fun p => match uf p with Some x => Ok x | None => Raise DaeBrokenRef end)) in
  load_model loader (FromPath f) (Plain d) z (Some uf) disk1 = expected /\
  load_model loader FromFileObj (Plain d) z (Some uf) disk2 = expected /\
  load_model loader k1 (Archive ms) None (Some uf) disk3 = expected /\
  load_model loader k2 (Archive ms) (Some m) (Some uf) disk4 = expected.
Proof. intros model loader. exact (same_model_user loader). Qed.
Print Assumptions C16_same_bytes_same_model.

(* without a user loader: the document at m inside an archive, and the same document at the
   path m in a directory tree holding the same files, give the same model for every loader
   (the zip resolver and the disk resolver are the same function of the auxiliary path) *)
Theorem C16_same_model_archive_vs_directory : forall (model : Type) (loader : N -> (name -> outcome N) -> model)
    d ms m k,
  NoDup (map fst ms) -> is_empty_name m = false -> In (m, d) ms ->
  load_model loader (FromPath m) (Plain d) None None ms =
  load_model loader k (Archive ms) (Some m) None ms.
Proof. intros model loader. exact (same_model_mirror loader). Qed.
Print Assumptions C16_same_model_archive_vs_directory.

(* a document that asks for no auxiliary file: the same model from every source kind *)
Theorem C16_same_model_without_aux : forall (model : Type) (lm : N -> model) d f ms n k z disk1 disk2 disk3,
  NoDup (map fst ms) -> first_non_decoy (map fst ms) = Some n -> In (n, d) ms ->
  let loader := fun d (_ : name -> outcome N) => lm d in
  load_model loader (FromPath f) (Plain d) z None disk1 = Ok (lm d) /\
  load_model loader FromFileObj (Plain d) z None disk2 = Ok (lm d) /\
  load_model loader k (Archive ms) None None disk3 = Ok (lm d).
Proof. intros model lm. exact (same_model_no_aux lm). Qed.
Print Assumptions C16_same_model_without_aux.

(* the behaviours DO differ by design when no user loader is given: a file object has no
   resolver at all *)
Theorem C16_fileobj_behaviour : forall disk uf f, behaviour RNull disk uf f = Raise DaeBrokenRef.
Proof. reflexivity. Qed.
Print Assumptions C16_fileobj_behaviour.

Theorem C16_archive_without_document : forall k ms z u e,
  open_container k (Archive ms) z u = Raise e -> e = DaeIncomplete.
Proof. exact open_archive_none. Qed.
Print Assumptions C16_archive_without_document.

(* ---- non-vacuity *)
(* atoms: a=48 b=64 tex=80 sub=96, doc.dae=16*7+1=113, scene.DAE=16*8+2=130, __MACOSX=16*9+4=148,
   ._doc.dae=16*10+1=161, x.png=176 *)
Example C16_layout_nonvacuous :
  let ms := [([148; 48; 161], 3000); ([48; 80; 176], 2001); ([148; 161], 3001);
             ([48; 64; 130], 1000); ([113], 1001)] in
  first_non_decoy (map fst ms) = Some [48; 64; 130] /\
  sane ms = true /\
  open_container FromFileObj (Archive ms) None false = Ok (1000, RZip ms [48; 64; 130]) /\
  resolve (RZip ms [48; 64; 130]) [] (fun _ => None) [c_dotdot; 96; c_dotdot; c_dot; 80; c_empty; 176] = Ok 2001 /\
  walk_in ms [48; 64] [c_dotdot; 96; c_dotdot; c_dot; 80; c_empty; 176] = Some 2001 /\
  resolve (RZip ms [48; 64; 130]) [] (fun _ => None) [c_dotdot; c_dotdot; c_dotdot; 176] = Raise DaeBrokenRef.
Proof. vm_compute. repeat split; reflexivity. Qed.

Example C16_normpath_nonvacuous :
  normpath [48; c_dotdot; c_dotdot; 64; c_empty; c_dot; 80] = [c_dotdot; 64; 80] /\
  normpath [c_empty; c_empty; 48; c_dotdot; c_dotdot; 64] = [c_empty; c_empty; 64] /\
  normpath [c_empty; c_empty; c_empty; c_dotdot] = [c_empty; c_empty] /\
  normpath [c_dot; c_empty] = [c_dot].
Proof. vm_compute. repeat split; reflexivity. Qed.
