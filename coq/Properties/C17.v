(* C17 - queries are pure and repeatable.  Statements only; proofs in Proofs/Purity.v.

   PARTIAL: the theorems are about the footprint model of Model/Purity.v.  Their premises
   (the footprint discipline) are exactly what the correspondence measures on the
   implementation on every run: which locations a query changes (compared with [declared]
   inside Coq by Check/C17.v), that results repeat, that a queried document saves and answers
   like its never-queried twin, that writing into a bound primitive's vertex/normal arrays
   changes nothing reachable from the document.  numpy aliasing is observed, not modelled. *)
From Coq Require Import List ZArith NArith Bool.
From PC Require Import Base.Outcome Base.Py Base.Mat Gen.Transforms Model.Transforms Model.Strips Model.Triangulate
  Model.IndexedList Model.Traverse Model.PurityQueries Proofs.PurityQueries.
From PC Require Model.PrimCtor Model.PrimIter.
From PC Require Import Model.Purity Proofs.Purity.     (* last: its [run], [op] are the ones meant below *)
Import ListNotations.

Section C17.
  Variable query : Type.
  Variable writes : query -> loc -> bool.        (* declared write set *)
  Variable exec : query -> heap -> heap * val.   (* the read-only operation *)
  Variable save : heap -> heap * val.            (* save(): new heap and the bytes written *)
  Variable coherent : heap -> Prop.              (* every cache is empty or holds what the observable part determines *)
  Variable owned : query -> list loc.            (* vertex/normal arrays of the bound primitive a query returns *)

  Hypothesis writes_hidden : forall q l, writes q l = true -> observable l = false.
  Hypothesis frame : forall q h l, writes q l = false -> fst (exec q h) l = h l.
  Hypothesis result_reads_observable :
    forall q h h', coherent h -> coherent h' -> obs_eq h h' -> snd (exec q h) = snd (exec q h').
  Hypothesis exec_coherent : forall q h, coherent h -> coherent (fst (exec q h)).
  Hypothesis save_reads_observable :
    forall h h', obs_eq h h' -> obs_eq (fst (save h)) (fst (save h')) /\ snd (save h) = snd (save h').
  Hypothesis save_coherent : forall h, coherent h -> coherent (fst (save h)).
  Hypothesis owned_fresh : forall q l, In l (owned q) -> fst l = c_fresh.
  Hypothesis coherent_frame_fresh : forall h l v, fst l = c_fresh -> coherent h -> coherent (upd h l v).

  (* one query: the snapshot and the XML a save would write are unchanged *)
  Theorem C17_observable_unchanged : forall q h,
    (forall l, snapshot (fst (exec q h)) l = snapshot h l) /\
    snd (save (fst (exec q h))) = snd (save h).
  Proof.
    intros q h. split.
    - apply (exec_snapshot query writes exec writes_hidden frame).
    - apply (save_reads_observable (fst (exec q h)) h).
      apply (exec_obs_eq query writes exec writes_hidden frame).
  Qed.

  (* any history of queries with saves interleaved: the final snapshot and every saved output
     are those of the history with the queries erased *)
  Theorem C17_history : forall ops h,
    (forall l, snapshot (fst (run query exec save h ops)) l =
               snapshot (fst (run query exec save h (saves_only query ops))) l) /\
    saved_outputs (snd (run query exec save h ops)) =
    saved_outputs (snd (run query exec save h (saves_only query ops))).
  Proof.
    intros ops h.
    destruct (history query writes exec save writes_hidden frame save_reads_observable ops h) as [A B].
    split; [apply obs_eq_snapshot; exact A | exact B].
  Qed.

  (* repeating a query returns the same result; so does asking it after any other queries,
     and after any history it answers what the never-queried twin answers *)
  Theorem C17_repeatable : forall q h, coherent h ->
    snd (exec q (fst (exec q h))) = snd (exec q h).
  Proof. exact (repeatable query writes exec coherent writes_hidden frame result_reads_observable exec_coherent). Qed.

  Theorem C17_repeatable_after_queries : forall qs q h, coherent h ->
    snd (exec q (fst (run query exec save h (map Q qs)))) = snd (exec q h).
  Proof.
    exact (result_after_queries query writes exec save coherent writes_hidden frame
             result_reads_observable exec_coherent save_reads_observable save_coherent).
  Qed.

  Theorem C17_repeatable_vs_twin : forall ops q h, coherent h ->
    snd (exec q (fst (run query exec save h ops))) =
    snd (exec q (fst (run query exec save h (saves_only query ops)))).
  Proof.
    exact (result_vs_twin query writes exec save coherent writes_hidden frame
             result_reads_observable exec_coherent save_reads_observable save_coherent).
  Qed.

  (* bound primitives own their arrays: writing any value into them leaves the snapshot of the
     document as it was before binding, and every later query answers as before *)
  Theorem C17_bound_arrays_owned : forall q h l v, In l (owned q) ->
    (forall l', snapshot (upd (fst (exec q h)) l v) l' = snapshot h l') /\
    (coherent h -> forall q', snd (exec q' (upd (fst (exec q h)) l v)) = snd (exec q' h)).
  Proof.
    intros q h l v Hin. split.
    - apply obs_eq_snapshot. apply (owned_write query writes exec owned writes_hidden frame owned_fresh). exact Hin.
    - intros Hc q'.
      apply (owned_write_results query writes exec coherent owned writes_hidden frame
               result_reads_observable exec_coherent owned_fresh coherent_frame_fresh); assumption.
  Qed.
End C17.
Print Assumptions C17_observable_unchanged.
Print Assumptions C17_history.
Print Assumptions C17_repeatable.
Print Assumptions C17_repeatable_after_queries.
Print Assumptions C17_repeatable_vs_twin.
Print Assumptions C17_bound_arrays_owned.

(* the write sets declared for the implementation's query kinds contain hidden classes only:
   the premise [writes_hidden] is proved for them, so what remains measured is [frame] *)
Theorem C17_declared_sets_hidden : forall k l, writes_of_kind k l = true -> observable l = false.
Proof. exact writes_of_kind_hidden. Qed.
Print Assumptions C17_declared_sets_hidden.

Theorem C17_kinds_observable_unchanged :
  forall (exec : N -> heap -> heap * val),
    (forall k h l, writes_of_kind k l = false -> fst (exec k h) l = h l) ->
    forall k h l, snapshot (fst (exec k h)) l = snapshot h l.
Proof.
  intros exec Hframe k h. apply (exec_snapshot N writes_of_kind exec writes_of_kind_hidden Hframe).
Qed.
Print Assumptions C17_kinds_observable_unchanged.

(* Non-vacuity: a concrete heap (source data, index, XML text; triangulation cache; two fresh
   bound arrays) and three queries (triangulate through the cache, bind, print) with a save
   that rewrites the XML from the arrays meet every premise; on a history with repeated
   queries and two saves the theorems give the concrete facts below. *)
Example C17_history_nonvacuous :
  let ops := [Q TTri; Q TBind; Save; Q TTri; Q TPrint; Q TBind; Save; Q TTri] in
  saved_outputs (snd (run tq texec tsave theap0 ops)) = [21; 21]%N /\
  snapshot (fst (run tq texec tsave theap0 ops)) l_xml = 21%N /\
  fst (run tq texec tsave theap0 ops) l_cache = 23%N /\
  snd (texec TTri (fst (run tq texec tsave theap0 ops))) = snd (texec TTri theap0).
Proof. vm_compute. repeat split; reflexivity. Qed.

Example C17_instance_meets_premises :
  (forall ops l, snapshot (fst (run tq texec tsave theap0 ops)) l =
                 snapshot (fst (run tq texec tsave theap0 (saves_only tq ops))) l) /\
  (forall ops q, snd (texec q (fst (run tq texec tsave theap0 ops))) =
                 snd (texec q (fst (run tq texec tsave theap0 (saves_only tq ops))))) /\
  (forall v l', snapshot (upd (fst (texec TBind theap0)) l_bv v) l' = snapshot theap0 l').
Proof.
  split; [|split].
  - intros ops l. apply (C17_history tq twrites texec tsave t_writes_hidden t_frame t_save_obs ops theap0).
  - intros ops q. apply (C17_repeatable_vs_twin tq twrites texec tsave tcoherent t_writes_hidden t_frame
                           t_result t_exec_coherent t_save_obs t_save_coherent ops q theap0 t_heap0_coherent).
  - intros v l'. apply (C17_bound_arrays_owned tq twrites texec tcoherent towned t_writes_hidden t_frame
                          t_result t_exec_coherent t_owned_fresh t_coherent_frame TBind theap0 l_bv v).
    simpl. left. reflexivity.
Qed.

(* the premises are needed: a "query" that writes an observable location (here: sorts/rewrites
   the index array) changes what a save writes *)
Example C17_observable_write_refutes :
  let bad := fun (h : heap) => (upd h l_idx 0%N, 0%N) in
  snd (tsave (fst (bad theap0))) <> snd (tsave theap0).
Proof. vm_compute. discriminate. Qed.

(* ================================================================================================
   CONCRETE queries.  For the query kinds below the footprint discipline is PROVED on concrete
   Gallina models, so the history theorems hold for them without any hypothesis:
     Polylist.triangleset() with its cache (C11 family's Model.Triangulate.triangleset), CImage data
     with its cache, getInputList(), library look-ups L[key] / L.get / key in L (C14 family's
     Model.IndexedList), Scene.objects and Node.objects with a matrix (C12 family's Model.Traverse),
     binding as a pure function producing NEW arrays at fresh locations, bound
     shapes()/triangles()/polygons()/lines(), prim[i] and iteration of the unbound primitive (C10
     family's Model.PrimIter), Polygon.triangles() (Model.Triangulate.poly_triangles), str()/repr().
   What remains measured for these kinds is that the Python code does what these Gallina models say
   (the correspondences of C10/C11/C12/C14 for the computations, and the write-set measurement of
   Check/C17.v for the absence of other writes). *)

(* writes stay inside the declared hidden fields *)
Theorem C17_concrete_writes_declared : forall R (O : ops R) q (s : cdoc R),
  cobs (fst (cexec O q s)) = cobs s /\
  (~ In FTriCache (cdeclared q) -> c_tri (fst (cexec O q s)) = c_tri s) /\
  (~ In FImgCache (cdeclared q) -> c_img (fst (cexec O q s)) = c_img s) /\
  (~ In FFresh (cdeclared q) -> f_store (fst (cexec O q s)) = f_store s /\ f_next (fst (cexec O q s)) = f_next s).
Proof. intros R O q s. split; [apply c_frame | apply c_writes_declared]. Qed.
Print Assumptions C17_concrete_writes_declared.

(* results are functions of the observable part, caches stay coherent *)
Theorem C17_concrete_results_observable : forall R (O : ops R) q (s s' : cdoc R),
  ccoherent s -> ccoherent s' -> cobs s = cobs s' ->
  snd (cexec O q s) = snd (cexec O q s') /\ ccoherent (fst (cexec O q s)).
Proof. intros R O q s s' Hc Hc' Ho. split; [apply c_result; assumption | apply c_exec_coherent; exact Hc]. Qed.
Print Assumptions C17_concrete_results_observable.

(* any history of these queries with saves interleaved, from ANY state: the observable part and
   every saved output are those of the history with the queries erased - no hypothesis *)
Theorem C17_concrete_history : forall R (O : ops R) ops (s : cdoc R),
  cobs (fst (srun _ _ _ _ (cexec O) csave s ops)) =
  cobs (fst (srun _ _ _ _ (cexec O) csave s (saves_only_s (cquery R) ops))) /\
  snd (srun _ _ _ _ (cexec O) csave s ops) = snd (srun _ _ _ _ (cexec O) csave s (saves_only_s (cquery R) ops)).
Proof.
  intros R O ops s.
  apply (s_history_gen _ _ _ _ _ cobs (cexec O) csave (c_frame R O) (c_save_obs R) ops s s eq_refl).
Qed.
Print Assumptions C17_concrete_history.

(* from a freshly loaded/constructed document (nothing cached, nothing allocated), after any
   history: a repeated query returns the same result, and every query answers what the
   never-queried twin answers *)
Theorem C17_concrete_repeatable : forall R (O : ops R) ops q (s : cdoc R), cfresh s ->
  let s1 := fst (srun _ _ _ _ (cexec O) csave s ops) in
  snd (cexec O q (fst (cexec O q s1))) = snd (cexec O q s1) /\
  snd (cexec O q s1) = snd (cexec O q (fst (srun _ _ _ _ (cexec O) csave s (saves_only_s (cquery R) ops)))).
Proof.
  intros R O ops q s Hf s1. pose proof (c_fresh_coherent R s Hf) as Hc. split.
  - apply (s_repeatable _ _ _ _ cobs (cexec O) ccoherent (c_frame R O) (c_result R O) (c_exec_coherent R O)).
    apply (s_run_coherent _ _ _ _ (cexec O) csave ccoherent (c_exec_coherent R O) (c_save_coherent R)). exact Hc.
  - apply (s_vs_twin _ _ _ _ _ cobs (cexec O) csave ccoherent (c_frame R O) (c_result R O) (c_exec_coherent R O)
             (c_save_obs R) (c_save_coherent R)). exact Hc.
Qed.
Print Assumptions C17_concrete_repeatable.

(* library look-ups leave the list and its id index exactly as they are *)
Theorem C17_concrete_lookup_pure : forall R (O : ops R) l (s : cdoc R),
  fst (cexec O (QLookup l) s) = s /\ snd (cexec O (QLookup l) s) = RLookup R (il_lookup (d_lib R s) l).
Proof. intros. split; reflexivity. Qed.
Print Assumptions C17_concrete_lookup_pure.

(* bound primitives own their arrays, concretely: binding stores the transformed vertex and normal
   arrays at two locations that did not exist before; writing ANY content into either leaves the
   unbound document (sources of the primitive included), its caches' coherence and the result of
   EVERY query exactly as they were *)
Theorem C17_concrete_bound_arrays_owned : forall R (O : ops R) m mm (s : cdoc R), cwf s ->
  let s1 := fst (cexec O (QBind m mm) s) in
  let bp := PrimIter.bind (d_prim s) m mm in
  In (f_next s, rows_of (PrimIter.ip_vertex bp)) (f_store s1) /\
  In ((f_next s + 1)%N, rows_of (PrimIter.ip_normal bp)) (f_store s1) /\
  (forall l, In l (bind_locs s) ->
     (forall v0, ~ In (l, v0) (f_store s)) /\
     forall v, cobs (cwrite l v s1) = cobs s /\
               (ccoherent s -> ccoherent (cwrite l v s1)) /\
               forall q, snd (cexec O q (cwrite l v s1)) = snd (cexec O q s1)).
Proof.
  intros R O m mm s Hw s1 bp.
  destruct (bind_allocates R O m mm s) as [A B].
  split; [exact A | split; [exact B|]].
  intros l Hl. split; [apply (bind_locs_new R s l Hw Hl)|].
  intros v. split; [|split].
  - unfold s1. rewrite (c_write_obs R). apply c_frame.
  - intro Hc. apply c_write_coherent. apply c_exec_coherent. exact Hc.
  - intro q. apply c_write_result.
Qed.
Print Assumptions C17_concrete_bound_arrays_owned.

(* allocated locations stay below the allocator along every history *)
Theorem C17_concrete_allocation_wf : forall R (O : ops R) ops (s : cdoc R), cwf s ->
  cwf (fst (srun _ _ _ _ (cexec O) csave s ops)).
Proof.
  intros R O ops s Hw.
  apply (s_run_coherent _ _ _ _ (cexec O) csave cwf (c_exec_wf R O) (c_save_wf R)). exact Hw.
Qed.
Print Assumptions C17_concrete_allocation_wf.

(* Non-vacuity: a polylist (a quad and a triangle, two inputs per corner), a library of three
   objects two of which share an id, a scene with a translated geometry instance, an image, and a
   primitive with positions, normals and two texcoord sets (a triangle, a void and a quad). *)
Definition ex_v := PrimCtor.Src [[0;0;0];[1;0;0];[0;1;0];[0;0;1]]%Z 3.
Definition ex_n := PrimCtor.Src [[0;0;1];[0;1;0]]%Z 3.
Definition ex_t := PrimCtor.Src [[0;0];[1;0];[0;1]]%Z 2.
Definition ex_prim : PrimCtor.prim :=
  match PrimCtor.construct PrimCtor.KPolylist
          [PrimCtor.Inp 0 PrimCtor.VERTEX ex_v; PrimCtor.Inp 1 PrimCtor.NORMAL ex_n;
           PrimCtor.Inp 0 PrimCtor.TEXCOORD ex_t; PrimCtor.Inp 2 PrimCtor.TEXCOORD ex_t] (Some 7%N)
          (PrimCtor.SPolylist [0;0;2; 1;1;0; 2;0;1;   2;1;1; 1;0;2; 0;1;0; 2;0;0]%N [3; 0; 4]%nat) with
  | Ok p => p
  | Raise _ => PrimCtor.Prim PrimCtor.KTri 1 0 None None [] [] [] [] None
  end.
Definition ex_M : list (list Z) := [[0;-1;0;5];[1;0;0;0];[0;0;1;-2]]%Z.

Definition ex_doc : cdoc Z :=
  CDoc Z [4; 3]%nat [[0;0]; [1;0]; [2;1]; [3;1]; [0;2]; [2;2]; [3;0]]%N
       [(1, [(0, 1, 50, None)]); (2, [(1, 2, 51, None)]); (3, [(1, 3, 52, Some 0); (1, 3, 53, Some 1)])]%N
       (of_list [(1, 7); (2, 8); (3, 7)]%N)
       [SNode (translate_matrix zops 1%Z 2%Z 3%Z) [SGeom 7 [(1, 10)]%N; SCam 4]]
       99%N [] ex_prim None None [] 0%N.

Example C17_concrete_nonvacuous :
  let ops := [SQ QTriangleset; SQ (QLookup (LGet 7)); SSave; SQ QImageData; SQ QTriangleset;
              SQ (QSceneObjects 0); SQ QInputList; SQ (QBind ex_M [(7, 9)]%N); SQ (QShapes ex_M []);
              SQ QUnboundIter; SQ QPrint; SSave] in
  let s1 := fst (srun _ _ _ _ (cexec zops) csave ex_doc ops) in
  snd (cexec zops QTriangleset ex_doc) =
    RTri Z (Ok [([0;0],[1;0],[2;1]); ([0;0],[2;1],[3;1]); ([0;2],[2;2],[3;0])]%N) /\
  c_tri s1 = Some [([0;0],[1;0],[2;1]); ([0;0],[2;1],[3;1]); ([0;2],[2;2],[3;0])]%N /\
  c_img s1 = Some 99%N /\
  snd (cexec zops (QLookup (LGet 7)) s1) = RLookup Z (Ok (Some 3%N)) /\
  snd (cexec zops (QLookup (LItem (KId 9))) s1) = RLookup Z (Raise PyKeyError) /\
  snd (cexec zops QInputList s1) = RInputs Z [(0, 1, 50, None); (1, 2, 51, None); (1, 3, 52, Some 0); (1, 3, 53, Some 1)]%N /\
  length (match snd (cexec zops (QSceneObjects 0) s1) with RBound _ l => l | _ => [] end) = 1%nat /\
  length (match snd (cexec zops (QNodeObjects 2 None 0) s1) with RBound _ l => l | _ => [] end) = 1%nat /\
  snd (cexec zops (QPolygonTriangles 0) s1) = RTri Z (Ok [([0;0],[1;0],[2;1]); ([0;0],[2;1],[3;1])]%N) /\
  snd (cexec zops QPrint s1) = RStr Z 3 2 3 /\
  map fst (f_store s1) = [2; 3; 0; 1]%N /\ f_next s1 = 4%N /\
  nth 2 (f_store s1) (0%N, []) = (0%N, [[5;0;-2];[5;1;-2];[4;0;-2];[5;0;-1]]%Z) /\
  (match snd (cexec zops (QShapes ex_M []) s1) with
   | RItems _ (Ok l) => map PrimIter.it_vertices l | _ => [] end)
    = [[[5;0;-2];[5;1;-2];[4;0;-2]]; []; [[4;0;-2];[5;1;-2];[5;0;-2];[4;0;-2]]]%Z /\
  cobs (cwrite 0%N [[9;9;9]]%Z s1) = cobs s1 /\
  snd (srun _ _ _ _ (cexec zops) csave ex_doc ops) = [[4;3;0;0;1;0;2;1;3;1;0;2;2;2;3;0;7;8;7]; [4;3;0;0;1;0;2;1;3;1;0;2;2;2;3;0;7;8;7]]%N /\
  cfresh ex_doc.
Proof. vm_compute. repeat split; reflexivity. Qed.
