(* C14 - id-indexed library lists stay coherent under every mutation.
   Statements only; proofs are in Proofs/IndexedList.v. *)
From Coq Require Import List ZArith NArith.
From PC Require Import Base.Outcome Base.Py Base.IlProg Gen.IndexedList Model.IndexedList Proofs.IndexedList.
Import ListNotations.

(* [step] interprets the per-mutator programs of Gen/IndexedList.v, regenerated from class
   IndexedList on every build (one instruction per Python statement, in source order); it computes
   the hand-written reading [step_ref] of the mutators.  Every theorem below is about [step]. *)
Theorem C14_step_is_reference : forall s o, step s o = step_ref s o.
Proof. exact step_eq. Qed.
Print Assumptions C14_step_is_reference.

(* one mutation keeps "the dict answers what the list says" *)
Theorem C14_inv_preserved : forall s o, Inv s -> Inv (fst (step s o)).
Proof. exact step_inv. Qed.
Print Assumptions C14_inv_preserved.

(* positional behaviour and the reported outcome are those of a plain list *)
Theorem C14_positional_is_list : forall s o, Inv s ->
  items (fst (step s o)) = fst (list_step (items s) o) /\
  snd (step s o) = snd (list_step (items s) o).
Proof. exact step_refines_list. Qed.
Print Assumptions C14_positional_is_list.

(* a failed operation leaves both the list and the dict unchanged *)
Theorem C14_failed_op_is_noop : forall s o e, snd (step s o) = Raise e -> fst (step s o) = s.
Proof. exact step_failed_noop. Qed.
Print Assumptions C14_failed_op_is_noop.

(* every state reachable from an empty library list, or from a list installed wholesale
   through the attribute, by any finite history of mutations, is coherent *)
Theorem C14_reachable : forall ops, Inv (run init ops).
Proof. intro ops. apply run_inv. exact Inv_init. Qed.
Print Assumptions C14_reachable.

Theorem C14_reassign_wraps : forall l ops, Inv (run (of_list l) ops).
Proof. intros l ops. apply run_inv. apply Inv_of_list. Qed.
Print Assumptions C14_reassign_wraps.

(* ... and along the whole history the list is the plain-list history *)
Theorem C14_history_is_list_history : forall ops, items (run init ops) = list_run [] ops.
Proof. intro ops. apply (run_items ops init Inv_init). Qed.
Print Assumptions C14_history_is_list_history.

(* what coherence gives the user: look-up by id, membership by id and get() return an
   object that is in the list and carries that id, and succeed whenever such an object exists *)
Theorem C14_lookup_agrees_with_contents : forall s a, Inv s ->
  (forall u, iget (index s) a = Some u -> In (u, a) (items s)) /\
  ((exists u, In (u, a) (items s)) -> iget (index s) a <> None).
Proof. exact lookup_agrees. Qed.
Print Assumptions C14_lookup_agrees_with_contents.

(* the id maps to the LAST object of the list carrying it *)
Theorem C14_lookup_is_last : forall s a u, Inv s -> iget (index s) a = Some u ->
  exists l1 l2, items s = l1 ++ (u, a) :: l2 /\ (forall u', ~ In (u', a) l2).
Proof. exact lookup_is_last. Qed.
Print Assumptions C14_lookup_is_last.

(* in every reachable state the dict answers what re-indexing the list from scratch would *)
Theorem C14_index_function_of_items : forall ops a,
  iget (index (run init ops)) a = iget (reindex (items (run init ops))) a.
Proof. exact index_function_of_items. Qed.
Print Assumptions C14_index_function_of_items.

(* get() never raises for an id key (the generated except clause catches the dict's KeyError), and
   item access / membership catch what their look-ups can raise *)
Theorem C14_lookups_never_escape :
  (forall s a, get_model s a = Ok (iget (index s) a)) /\
  caught_b PyKeyError getitem_caught = true /\ caught_b PyTypeError contains_caught = true.
Proof. split; [exact get_model_total | split; reflexivity]. Qed.
Print Assumptions C14_lookups_never_escape.

(* Non-vacuity: a history with colliding ids that uses every operation kind; it ends in a
   non-empty list in which id 1 is still carried by two objects. *)
Example C14_history_nonvacuous :
  let ops := [Append (1,1); Extend [(2,2);(3,1)]; Insert (KInt 0) (4,2); Insert (KId 1) (5,3);
              SetItem (KInt (-1)) (6,1); DelItem (KId 2); Pop None; Pop (Some (KInt 7));
              Remove (KObj (5,3)); Remove (KId 9); IAdd [(7,1);(8,1)]; Reverse;
              DelItem (KInt 0)]%N%Z in
  items (run init ops) = [(7,1);(1,1);(4,2)]%N /\ iget (index (run init ops)) 1%N = Some 1%N.
Proof. vm_compute. split; reflexivity. Qed.
