(* C18 - generated normals are the normalised sum of incident face normals; generated texture
   tangents are unit vectors orthogonal to the normal.  Statements only; proofs are in
   Proofs/Normals.v (any commutative ring) and Proofs/NormalsR.v (real numbers). *)
From Coq Require Import List ZArith Ring.
From PC Require Import Model.Normals Gen.NormalsAcc Gen.Tangents Proofs.Normals Proofs.NormalsR Proofs.Tangents.
Import ListNotations.

Section AnyRing.
  Variable o : ops.
  Hypothesis Rth : ring_theory (rO o) (rI o) (radd o) (rmul o) (rsub o) (ropp o) eq.

  (* Triangle.__init__: the implicit normal is a multiple of the right-hand normal
     cross(v1 - v0, v2 - v0); the factor is the product of the three 1/length factors of
     toUnitVec (positive over the reals: C18_face_normal_is_unit_right_hand below) *)
  Theorem C18_face_normal_direction : forall (linv : vec o -> car o) (p0 p1 p2 : vec o),
    let a := unitv o linv (vsub o p2 p0) in
    let b := unitv o linv (vsub o p0 p1) in
    tri_normal o linv p0 p1 p2 =
    vscale o (rmul o (linv (cross o a b)) (rmul o (linv (vsub o p2 p0)) (linv (vsub o p0 p1))))
           (rh_normal o p0 p1 p2).
  Proof. exact (tri_normal_direction o Rth). Qed.

  (* generateNormals, as the code accumulates today: for ALL meshes (any number of triangles,
     any sharing pattern, repeated indices in the same corner column included) the
     un-normalised row of every vertex is the sum over all incident (triangle, corner) pairs of
     the unit face normals *)
  Theorem C18_vertex_sum : forall (nrm : vec o -> vec o) verts tris v,
    v < length verts ->
    vnth o (gen_sums o nrm (code_accumulate o) verts tris) v = spec_sum o nrm verts tris v.
  Proof. exact (gen_sums_spec o Rth). Qed.

  (* ... and the generated array has one row per vertex, row v being the normalised sum, and is
     indexed by the vertex index itself *)
  Theorem C18_indexed_like_vertices : forall (nrm : vec o -> vec o) verts tris,
    length (gen_normals o nrm (code_accumulate o) verts tris) = length verts /\
    gen_normal_index tris = tris /\
    forall v, v < length verts ->
      nth v (gen_normals o nrm (code_accumulate o) verts tris) (nrm (vzero o)) = spec_normal o nrm verts tris v.
  Proof.
    intros nrm verts tris. split; [apply gen_normals_length|split; [reflexivity|]].
    intros v Hv. apply (gen_normals_spec o Rth). exact Hv.
  Qed.

  (* Gram-Schmidt step of generateTexTangentsAndBinormals: for a unit normal, the projected
     tangent - and every multiple of it, in particular its normalisation - is orthogonal to it *)
  Theorem C18_tangent_orthogonal : forall (k : car o) (n t : vec o),
    dot o n n = rI o -> dot o n (vscale o k (project o n t)) = rO o.
  Proof. exact (project_scaled_orthogonal o Rth). Qed.

  (* the accumulated direction is Lengyel's tangent (the code takes its second edge from
     corner 1 to corner 2; the result is the same) *)
  Theorem C18_sdir_is_lengyel : forall (rinv : car o -> car o) (p0 p1 p2 : vec o) (w0 w1 w2 : uv o),
    let d := uv_det o w0 w1 w2 in
    rmul o (rinv d) d = rI o ->
    vscale o d (sdir o rinv p0 p1 p2 w0 w1 w2) =
    vsub o (vscale o (rsub o (snd w2) (snd w0)) (vsub o p1 p0))
           (vscale o (rsub o (snd w1) (snd w0)) (vsub o p2 p0)).
  Proof. exact (sdir_lengyel o Rth). Qed.

  (* the same two facts for the code as it is written today: Gen/Tangents.v is regenerated from
     generateTexTangentsAndBinormals on every run (scalar expressions of sdir, and through which
     index rows the corner's normal and accumulated tangent are gathered) *)
  Theorem C18_code_sdir_is_lengyel : forall (rinv : car o -> car o) (p0 p1 p2 : vec o) (w0 w1 w2 : uv o),
    let d := uv_det o w0 w1 w2 in
    rmul o (rinv d) d = rI o ->
    vscale o d (code_sdir o rinv p0 p1 p2 w0 w1 w2) =
    vsub o (vscale o (rsub o (snd w2) (snd w0)) (vsub o p1 p0))
           (vscale o (rsub o (snd w1) (snd w0)) (vsub o p2 p0)).
  Proof. exact (code_sdir_lengyel o Rth). Qed.

  (* per corner c of triangle (t = vertex index row, n = NORMAL index row): what normalize_v3
     receives is the projection of the tangent accumulated at the corner's VERTEX off the normal
     selected by the corner's NORMAL index, hence orthogonal to that normal when it is a unit vector *)
  Theorem C18_code_corner_tangent : forall (k : car o) (normals tans1 : list (vec o)) (t n : tri) (c : nat),
    code_corner_tangent o normals tans1 t n c =
      project o (vnth o normals (corner n c)) (vnth o tans1 (corner t c)) /\
    (dot o (vnth o normals (corner n c)) (vnth o normals (corner n c)) = rI o ->
     dot o (vnth o normals (corner n c)) (vscale o k (code_corner_tangent o normals tans1 t n c)) = rO o).
  Proof.
    intros. split; [apply code_corner_tangent_is_project|apply (code_corner_tangent_orthogonal o Rth)].
  Qed.

  (* the generated function is the hand-written model (which the correspondence runs) *)
  Theorem C18_code_tangents_are_model : forall (rinv : car o -> car o) verts uvs normals tris uvtris ntris,
    code_gen_tangents_raw o rinv verts uvs normals tris uvtris ntris =
    gen_tangents_raw o (code_accumulate o) rinv verts uvs normals tris uvtris ntris.
  Proof. exact (code_gen_tangents_raw_is_model o). Qed.

  (* the generated binormal (Gen/Tangents.v: tanw = sign(dot_v3(cross(norm, tan1), tan2)),
     binorm = cross(norm, tangent) * tanw, the normal taken through the corner's NORMAL index, tan2
     from the accumulated t-directions through the VERTEX index): it is handedness times
     normal x tangent, orthogonal to BOTH the corner's normal and its generated tangent - whatever
     they are -, and a unit vector when normal and tangent are orthogonal unit vectors and the
     handedness is +1 or -1 (sign of a non-zero number) *)
  Theorem C18_code_binormal : forall (nrm : vec o -> vec o) (sgn : car o -> car o)
      (normals tans1 tans2 : list (vec o)) (t n : tri) (c : nat),
    let N := vnth o normals (corner n c) in
    let T := nrm (code_corner_tangent o normals tans1 t n c) in
    let w := code_corner_handedness o sgn normals tans1 tans2 t n c in
    let B := code_corner_binormal o nrm sgn normals tans1 tans2 t n c in
    B = scale_r o (cross o N T) w /\
    dot o N B = rO o /\ dot o T B = rO o /\
    (dot o N N = rI o -> dot o T T = rI o -> dot o N T = rO o -> rmul o w w = rI o -> dot o B B = rI o).
  Proof.
    intros nrm sgn normals tans1 tans2 t n c N T w B.
    assert (E : B = scale_r o (cross o N T) w) by apply code_corner_binormal_is.
    split; [exact E|]. rewrite E.
    destruct (binormal_orthogonal o Rth N T w) as [H1 H2].
    split; [exact H1|split; [exact H2|]]. apply (binormal_unit o Rth).
  Qed.

  (* why the former `norms[idx] += n` went unnoticed: without a repeated index in the column the
     fancy-indexed += and numpy.add.at agree *)
  Theorem C18_fancy_iadd_agrees_without_repeats : forall a idx vs v,
    NoDup idx -> v < length a -> length vs = length idx ->
    vnth o (fancy_iadd o a idx vs) v = vnth o (add_at o a idx vs) v.
  Proof. exact (fancy_iadd_nodup o Rth). Qed.
End AnyRing.
Print Assumptions C18_face_normal_direction.
Print Assumptions C18_vertex_sum.
Print Assumptions C18_indexed_like_vertices.
Print Assumptions C18_tangent_orthogonal.
Print Assumptions C18_sdir_is_lengyel.
Print Assumptions C18_code_sdir_is_lengyel.
Print Assumptions C18_code_corner_tangent.
Print Assumptions C18_code_tangents_are_model.
Print Assumptions C18_code_binormal.
Print Assumptions C18_fancy_iadd_agrees_without_repeats.

(* ---------------------------------------------------------------- integers: witnesses *)
Definition z_ops : ops := mk_ops Z 0%Z 1%Z Z.add Z.mul Z.sub Z.opp.
Definition zid (v : vec z_ops) : vec z_ops := v.

(* refutation of the former code: two triangles put vertex 0 in corner 0; with
   `norms[idx] += n` only the second one's normal reaches vertex 0 *)
Example C18_fancy_iadd_refuted :
  let verts := [(0,0,0); (1,0,0); (0,1,0); (0,0,1)]%Z in
  let tris := [(0,1,2); (0,2,3)] in
  vnth z_ops (gen_sums z_ops zid (fancy_iadd z_ops) verts tris) 0 = (1,0,0)%Z /\
  spec_sum z_ops zid verts tris 0 = (1,0,1)%Z /\
  vnth z_ops (gen_sums z_ops zid (add_at z_ops) verts tris) 0 = (1,0,1)%Z.
Proof. vm_compute. repeat split. Qed.

(* non-vacuity: a fan of four triangles around vertex 0, all with vertex 0 in corner 0, plus an
   unused vertex; every hypothesis of C18_vertex_sum is met and the sums are non-trivial *)
Example C18_vertex_sum_nonvacuous :
  let verts := [(0,0,0); (1,0,0); (0,1,0); (-1,0,0); (0,-1,0); (5,5,5)]%Z in
  let tris := [(0,1,2); (0,2,3); (0,3,4); (0,4,1)] in
  map (vnth z_ops (gen_sums z_ops zid (code_accumulate z_ops) verts tris)) [0;1;5] =
    [(0,0,4); (0,0,2); (0,0,0)]%Z /\
  map (spec_sum z_ops zid verts tris) [0;1;5] = [(0,0,4); (0,0,2); (0,0,0)]%Z.
Proof. vm_compute. split; reflexivity. Qed.

Example C18_tangent_nonvacuous :
  let n := (0,0,1)%Z in let t := (3,-2,7)%Z in
  dot z_ops n n = 1%Z /\ project z_ops n t = (3,-2,0)%Z /\ dot z_ops n (vscale z_ops 5%Z (project z_ops n t)) = 0%Z.
Proof. vm_compute. repeat split. Qed.

(* ---------------------------------------------------------------- real numbers: unit length *)
(* toUnitVec / normalize_v3 of a non-zero vector has length 1 *)
Theorem C18_unit : forall v : RV, v <> vzero r_ops -> rdot (runit v) (runit v) = rI r_ops.
Proof. exact runit_unit. Qed.
Print Assumptions C18_unit.

(* the implicit normal of a non-degenerate triangle IS the unit right-hand normal of its three
   vertices (the three positive 1/length factors of C18_face_normal_direction cancel) *)
Theorem C18_face_normal_is_unit_right_hand : forall p0 p1 p2 : RV,
  rh_normal r_ops p0 p1 p2 <> vzero r_ops ->
  tri_normal r_ops rlinv p0 p1 p2 = runit (rh_normal r_ops p0 p1 p2) /\
  rdot (tri_normal r_ops rlinv p0 p1 p2) (tri_normal r_ops rlinv p0 p1 p2) = rI r_ops.
Proof. exact tri_normal_unit_rh. Qed.
Print Assumptions C18_face_normal_is_unit_right_hand.

(* generateNormals: the per-triangle normal it accumulates (cross product of the two UNIT edge
   vectors, normalised) is the unit right-hand normal of a non-degenerate triangle - so by
   C18_vertex_sum every vertex row is the sum of the unit right-hand normals of its incident
   (triangle, corner) pairs *)
Theorem C18_generated_face_normal_is_unit_right_hand : forall (verts : list RV) (t : tri),
  face_cross r_ops verts t <> vzero r_ops ->
  face_n r_ops runit verts t = runit (face_cross r_ops verts t) /\
  rdot (face_n r_ops runit verts t) (face_n r_ops runit verts t) = rI r_ops.
Proof. exact face_n_unit_rh. Qed.
Print Assumptions C18_generated_face_normal_is_unit_right_hand.

(* a normalised Gram-Schmidt tangent is a unit vector orthogonal to the unit normal *)
Theorem C18_tangent_unit_orthogonal : forall n t : RV,
  rdot n n = rI r_ops -> project r_ops n t <> vzero r_ops ->
  rdot (runit (project r_ops n t)) (runit (project r_ops n t)) = rI r_ops /\
  rdot n (runit (project r_ops n t)) = rO r_ops.
Proof.
  intros n t Hn Hp. split; [apply runit_unit; exact Hp|].
  apply (project_scaled_orthogonal r_ops Rth). exact Hn.
Qed.
Print Assumptions C18_tangent_unit_orthogonal.

(* ---------------------------------------------------------------- bound sets *)
(* BoundTriangleSet.generateNormals runs the same computation on the TRANSFORMED vertices
   (model: gen_normals on [map (R p + t) verts]).  When the bind matrix is a rotation R (right-
   handed orthonormal columns k0 k1 k2) plus a translation t, the normal it generates for every
   vertex is R applied to the normal generated on the unbound set - no cached unbound quantity is
   involved, and the translation does not matter. *)
Theorem C18_bound_under_rotation : forall (k0 k1 k2 t0 : RV) (verts : list RV) (tris : list tri) v,
  rotation r_ops k0 k1 k2 ->
  (forall t, In t tris -> tri_in_range (length verts) t) -> v < length verts ->
  vnth r_ops (gen_normals r_ops runit (code_accumulate r_ops)
                          (map (fun p => vadd r_ops (mv r_ops k0 k1 k2 p) t0) verts) tris) v =
  mv r_ops k0 k1 k2 (vnth r_ops (gen_normals r_ops runit (code_accumulate r_ops) verts tris) v).
Proof. exact gen_normals_rotation. Qed.
Print Assumptions C18_bound_under_rotation.

(* a rotation commutes with the cross product and keeps dot products: this is what makes the
   statement above true, and what fails for non-uniform scales, shears and mirrors *)
Theorem C18_rotation_cross_dot : forall (o : ops),
  ring_theory (rO o) (rI o) (radd o) (rmul o) (rsub o) (ropp o) eq ->
  forall k0 k1 k2 a b, rotation o k0 k1 k2 ->
  cross o (mv o k0 k1 k2 a) (mv o k0 k1 k2 b) = mv o k0 k1 k2 (cross o a b) /\
  dot o (mv o k0 k1 k2 a) (mv o k0 k1 k2 b) = dot o a b.
Proof.
  intros o Rth k0 k1 k2 a b H. split; [apply (rotation_cross o Rth)|apply (rotation_dot o Rth)]; exact H.
Qed.
Print Assumptions C18_rotation_cross_dot.

(* non-vacuity: the quarter turn about z is a rotation; a mirror is not (over Z) *)
Example C18_rotation_nonvacuous :
  rotation z_ops (0,1,0)%Z (-1,0,0)%Z (0,0,1)%Z /\
  mv z_ops (0,1,0)%Z (-1,0,0)%Z (0,0,1)%Z (3,5,7)%Z = (-5,3,7)%Z /\
  ~ rotation z_ops (1,0,0)%Z (0,1,0)%Z (0,0,-1)%Z.
Proof.
  split; [vm_compute; repeat split|]. split; [vm_compute; reflexivity|].
  intros (H & _). vm_compute in H. discriminate.
Qed.

(* non-vacuity of C18_code_binormal: normal z, tangent x, right-handed UVs give binormal +y *)
Example C18_binormal_nonvacuous :
  let n := (0,0,1)%Z in let t := (1,0,0)%Z in
  scale_r z_ops (cross z_ops n t) 1%Z = (0,1,0)%Z /\
  scale_r z_ops (cross z_ops n t) (-1)%Z = (0,-1,0)%Z /\
  dot z_ops n n = 1%Z /\ dot z_ops t t = 1%Z /\ dot z_ops n t = 0%Z.
Proof. vm_compute. repeat split. Qed.
