(* C07 - references resolve to the right object, on load and on save.  Statements only. *)
From Coq Require Import List Bool NArith Permutation.
From PC Require Import Base.Outcome Base.Py Base.Libs Gen.Params Model.IndexedList Model.Errors Model.Refs
     Proofs.Errors Proofs.Refs.
Import ListNotations.

(* against the GENERATED load order and the GENERATED lookup table: every library list a loader
   reads is filled by an earlier step (or is the loader's own library) *)
Theorem C07_load_order_respects_deps :
  forall a b, In (a, b) lookups -> a = b \/ before b a load_order = true.
Proof.
  intros a b H. pose proof deps_respected_true as D. unfold deps_respected in D.
  rewrite forallb_forall in D. specialize (D (a, b) H). simpl in D.
  apply orb_true_iff in D. destruct D as [D|D]; [left; apply lib_eqb_eq; exact D|right; exact D].
Qed.
Print Assumptions C07_load_order_respects_deps.
