(* C07 - references resolve to the right object, on load and on save.
   Statements only; proofs are in Proofs/Refs.v.  [load_order], [lookups] and [dcls_base] are
   GENERATED from the Python source (Gen/Params.v). *)
From Coq Require Import List Bool NArith Permutation.
From PC Require Import Base.Outcome Base.Py Base.Libs Gen.Params Model.IndexedList Model.Errors Model.Refs
     Proofs.Errors Proofs.Refs.
Import ListNotations.

(* against the GENERATED load order and the GENERATED lookup table: every library list a loader
   reads is filled by an earlier step (or is the loader's own library) *)
Theorem C07_load_order_respects_deps :
  forall a b, In (a, b) lookups -> a = b \/ before b a load_order = true.
Proof.
  intros a b H. pose proof deps_respected_true as D. unfold deps_respected in D.
  rewrite forallb_forall in D. specialize (D (a, b) H). simpl in D.
  apply orb_true_iff in D. destruct D as [D|D]; [left; apply lib_eqb_eq; exact D|right; exact D].
Qed.
Print Assumptions C07_load_order_respects_deps.

(* a reference that resolves is bound to an object of the referenced library carrying the
   referenced id; two references to the same id are bound to the identical object; with unique
   ids it is THE library object with that id, and it stays so while the libraries grow *)
Theorem C07_resolve_identity :
  (forall o r u, resolve o r = Ok u -> In (u, r_id r) (lib_list o (r_lib r))) /\
  (forall o r1 r2 u1 u2, resolve o r1 = Ok u1 -> resolve o r2 = Ok u2 ->
                         r_lib r1 = r_lib r2 -> r_id r1 = r_id r2 -> u1 = u2) /\
  (forall o r u, r_hash r = true -> NoDup (map oid (lib_list o (r_lib r))) ->
                 In (u, r_id r) (lib_list o (r_lib r)) -> resolve o r = Ok u) /\
  (forall o o' r u, resolve o r = Ok u -> (forall v, ~ In (v, r_id r) (lib_list o' (r_lib r))) ->
                    resolve (o ++ o') r = Ok u).
Proof.
  split; [exact resolve_ok_in|]. split; [exact resolve_same|]. split; [exact resolve_the_object|exact resolve_stable].
Qed.
Print Assumptions C07_resolve_identity.

(* the result does not depend on where the libraries stand among the root's children: it is a
   function of "the libraries of each kind, in document order" - in particular it is invariant
   under every permutation of the root's children when each kind occurs once *)
Theorem C07_library_permutation_invariant :
  (forall mk d1 d2, (forall k, contents_of d1 k = contents_of d2 k) -> load_doc mk d1 = load_doc mk d2) /\
  (forall mk d1 d2, Permutation d1 d2 -> NoDup (map fst d1) -> load_doc mk d1 = load_doc mk d2).
Proof.
  split; [exact load_doc_contents|].
  intros mk d1 d2 P Hnd. apply load_doc_contents. apply contents_perm; assumption.
Qed.
Print Assumptions C07_library_permutation_invariant.

(* the retry loop never runs out of fuel (pending count + 1 passes): loading always terminates,
   for every document, cyclic or not *)
Theorem C07_retry_fuel_suffices :
  (forall mk sc o nodes loaded errs, load_group mk sc o nodes loaded errs <> NOutOfFuel) /\
  (forall mk d, load_doc mk d <> DOutOfFuel).
Proof. split; [exact load_group_fuel|exact load_doc_fuel]. Qed.
Print Assumptions C07_retry_fuel_suffices.

(* self- and mutually-referential instance_nodes, and instance_nodes of an undefined id: let T be
   a set of ids that no library node loaded so far carries, such that every node of the group
   whose id is in T instantiates (with a well-formed url) some id of T.  Then the loop terminates,
   none of those nodes is ever loaded, all of them are left over, and each leftover is reported as
   a DaeBrokenRefError - which aborts the load unless masked.
     self reference   a -> a        : T = {a}
     mutual           a -> b -> a   : T = {a, b}
     dangling         a -> nosuch   : T = {nosuch, a} *)
Theorem C07_cycle_is_error :
  forall mk sc o (T : ident -> Prop) nodes loaded errs,
    (forall u t, T t -> ~ In (u, t) (lib_list o LNodes)) ->
    (forall n, In n nodes -> T (n_id n) -> exists t, In (NNode t true) (n_children n) /\ T t) ->
    (forall ln, In ln loaded -> ~ T (snd (fst ln))) ->
    load_group mk sc o nodes loaded errs <> NOutOfFuel /\
    forall l left e, load_group mk sc o nodes loaded errs = NFinished l left e ->
      (forall ln, In ln l -> ~ T (snd (fst ln))) /\
      (forall n, In n nodes -> T (n_id n) -> In n left) /\
      ((exists n, In n nodes /\ T (n_id n)) ->
         In DaeBrokenRef (fst (report_leftovers mk left e)) /\
         (masked mk DaeBrokenRef = false -> snd (report_leftovers mk left e) = Some DaeBrokenRef)).
Proof.
  intros mk sc o T nodes loaded errs Hlib Hb Hc. split; [apply load_group_fuel|].
  intros l left e H.
  destruct (load_group_blocked mk sc o T Hlib nodes loaded errs l left e Hb Hc H) as [A B].
  split; [exact A|]. split; [exact B|].
  intros [n [Hin HT]]. apply report_leftovers_brokenref.
  intro E. pose proof (B n Hin HT) as Hl. rewrite E in Hl. exact Hl.
Qed.
Print Assumptions C07_cycle_is_error.

(* a dangling reference (well-formed, id carried by no object of that library) is a
   DaeBrokenRefError and is never bound; a reference without '#' raises the class documented
   for its site before any look-up *)
Theorem C07_dangling_is_brokenref :
  (forall o r, r_hash r = true -> (forall u, ~ In (u, r_id r) (lib_list o (r_lib r))) ->
               resolve o r = Raise DaeBrokenRef) /\
  (forall o r x, r_hash r = false -> nohash_exn (r_site r) = Some x -> resolve o r = Raise x).
Proof. split; [exact resolve_dangling|exact resolve_nohash]. Qed.
Print Assumptions C07_dangling_is_brokenref.

(* on save every reference is written as '#' + the current id of the object it is bound to, and
   in the written library (its members under their current ids, which are distinct) that url
   resolves to the very object *)
Theorem C07_saved_refs_resolve :
  forall l (current_id : uid -> ident) members u,
    In u members -> NoDup (map current_id members) ->
    r_hash (saved_ref l current_id u) = true /\ r_id (saved_ref l current_id u) = current_id u /\
    resolve (written_lib l current_id members) (saved_ref l current_id u) = Ok u.
Proof.
  intros l cid members u Hin Hnd. split; [reflexivity|]. split; [reflexivity|].
  apply saved_ref_resolves; assumption.
Qed.
Print Assumptions C07_saved_refs_resolve.

(* ---- Non-vacuity.  Libraries in reverse order of their dependencies, library nodes defined
   before the nodes they instantiate (a -> b -> c, a nested forward reference), a material and a
   geometry instance: everything loads, every reference bound to the object with that id. *)
Definition ex_doc : doc :=
  [ (LDefaultScene, CDefault (Ref LScenes 30 true SUrl));
    (LScenes, CScenes [Scene 300 30 [TNode 301 31 [NNode 21 true; NInst (Ref LGeometry 10 true SUrl) [Ref LMaterials 12 true SUrl]]]]);
    (LNodes, CNodes [TNode 201 21 [NNode 22 true]; TNode 202 22 [NNode 23 true; NInst (Ref LGeometry 10 true SUrl) []];
                     TNode 203 23 []]);
    (LMaterials, CItems [Item 120 12 [Ref LEffects 11 true SUrl] None]);
    (LGeometry, CItems [Item 100 10 [] None]);
    (LEffects, CItems [Item 110 11 [] None]) ]%N.

Example C07_forward_references_load :
  match load_doc [] ex_doc with
  | Done s => st_errs s = [] /\
              st_nodes s = [(201, 21, [BNode 202]); (202, 22, [BNode 203; BInst 100 []]); (203, 23, [])]%N /\
              st_scenes s = [(300, 30, [(301, 31, [BNode 201; BInst 100 [120]])])]%N /\
              st_default s = Some 300%N /\
              st_items s = [(LEffects, (110, 11, [])); (LMaterials, (120, 12, [110])); (LGeometry, (100, 10, []))]%N
  | _ => False
  end.
Proof. vm_compute. repeat split; reflexivity. Qed.

(* a self reference, a mutual reference and a dangling one: the load ends with DaeBrokenRefError,
   and with that class ignored the acyclic node still loads *)
Definition ex_cyc : doc :=
  [ (LNodes, CNodes [TNode 1 11 [NNode 11 true]; TNode 2 12 [NNode 13 true]; TNode 3 13 [NNode 12 true];
                     TNode 4 14 [NNode 99 true]; TNode 5 15 []]) ]%N.

Example C07_cycles_end_in_brokenref :
  (match load_doc [] ex_cyc with Aborted s x => x = DaeBrokenRef /\ st_errs s = [DaeBrokenRef] | _ => False end) /\
  (match load_doc [MCls K_DaeBrokenRefError] ex_cyc with
   | Done s => st_nodes s = [(5, 15, [])]%N /\ st_errs s = [DaeBrokenRef; DaeBrokenRef; DaeBrokenRef; DaeBrokenRef]
   | _ => False end).
Proof. vm_compute. repeat split; reflexivity. Qed.

(* the hypotheses of C07_cycle_is_error are met by the mutual reference above *)
Example C07_cycle_hypotheses_met :
  let T := fun t : ident => t = 12%N \/ t = 13%N in
  let nodes := [TNode 2 12 [NNode 13 true]; TNode 3 13 [NNode 12 true]; TNode 5 15 []]%N in
  (forall n, In n nodes -> T (n_id n) -> exists t, In (NNode t true) (n_children n) /\ T t) /\
  (exists n, In n nodes /\ T (n_id n)).
Proof.
  simpl. split.
  - intros n [<-|[<-|[<-|[]]]] HT; simpl in *.
    + exists 13%N. split; [left; reflexivity|right; reflexivity].
    + exists 12%N. split; [left; reflexivity|left; reflexivity].
    + destruct HT as [HT|HT]; discriminate.
  - eexists. split; [left; reflexivity|left; reflexivity].
Qed.

(* completeness of the retry loop, for EVERY definition order: if the instance_node graph of a
   group of top-level nodes is acyclic (some rank decreases along every edge), every
   instance_node is well-formed and names a node of the group, and the other instances of the
   nodes resolve, then the loop ends with no leftover and no recorded error, every node of the
   group is loaded and nothing else is.  ([nodes] is an arbitrary list: no hypothesis on order.)
   What an instance_node is bound to is C07_node_binding_carries_id; the exact binding lists
   are compared with the implementation by the correspondence (Check/C07.v). *)
Theorem C07_retry_complete :
  forall mk sc o nodes errs (rank : ident -> nat),
    (forall n c e loaded, In n nodes -> In c (n_children n) -> load_child sc o loaded c <> CRaise e) ->
    (forall n t h, In n nodes -> In (NNode t h) (n_children n) ->
       h = true /\ t <> 0%N /\ exists m, In m nodes /\ n_id m = t /\ rank t < rank (n_id n)) ->
    exists l,
      load_group mk sc o nodes [] errs = NFinished l [] errs /\
      (forall n, In n nodes -> In (n_uid n, n_id n) (map lnode_obj l)) /\
      (forall x, In x (map lnode_obj l) -> exists n, In n nodes /\ x = (n_uid n, n_id n)).
Proof.
  intros mk sc o nodes errs rank Hg Hdef.
  apply (retry_complete mk sc o nodes errs rank); [|exact Hdef].
  intros n Hin c e loaded Hc. apply (Hg n c e loaded Hin Hc).
Qed.
Print Assumptions C07_retry_complete.

(* a bound instance_node is bound to an object carrying the instantiated id: a node of this group
   loaded before, or a library node *)
Theorem C07_node_binding_carries_id :
  forall sc o loaded t h u,
    load_child sc o loaded (NNode t h) = COk (BNode u) ->
    h = true /\ In (u, t) (lib_list o LNodes ++ map lnode_obj loaded).
Proof. exact node_binding_carries_id. Qed.
Print Assumptions C07_node_binding_carries_id.

(* the hypotheses of C07_retry_complete are met by a chain defined in the "wrong" order *)
Example C07_retry_complete_hypotheses_met :
  let o : objs := [(LGeometry, (100, 10))]%N in
  let nodes := [TNode 201 21 [NNode 22 true]; TNode 202 22 [NNode 23 true; NInst (Ref LGeometry 10 true SUrl) []];
                TNode 203 23 []]%N in
  let rank := fun t : ident => 30 - N.to_nat t in
  (forall n c e loaded, In n nodes -> In c (n_children n) -> load_child InLibrary o loaded c <> CRaise e) /\
  (forall n t h, In n nodes -> In (NNode t h) (n_children n) ->
     h = true /\ t <> 0%N /\ exists m, In m nodes /\ n_id m = t /\ rank t < rank (n_id n)) /\
  load_group [] InLibrary o nodes [] [] =
    NFinished [(203, 23, []); (202, 22, [BNode 203; BInst 100 []]); (201, 21, [BNode 202])]%N [] [].
Proof.
  simpl. split; [|split].
  - intros n c e loaded [<-|[<-|[<-|[]]]] Hc; simpl in Hc.
    + destruct Hc as [<-|[]]. simpl. destruct (spec_lookup _ _); discriminate.
    + destruct Hc as [<-|[<-|[]]]; simpl; [destruct (spec_lookup _ _); discriminate|discriminate].
    + contradiction.
  - intros n t h [<-|[<-|[<-|[]]]] Hc; simpl in Hc.
    + destruct Hc as [Hc|[]]. inversion Hc. subst. split; [reflexivity|]. split; [discriminate|].
      eexists. split; [right; left; reflexivity|]. split; [reflexivity|]. vm_compute. repeat constructor.
    + destruct Hc as [Hc|[Hc|[]]]; [|discriminate]. inversion Hc. subst. split; [reflexivity|]. split; [discriminate|].
      eexists. split; [right; right; left; reflexivity|]. split; [reflexivity|]. vm_compute. repeat constructor.
    + contradiction.
  - vm_compute. reflexivity.
Qed.

(* C07_retry_complete with the positional content of the binding lists: under the same hypotheses,
   distinct node ids that no library node carries, every loaded node is a node of the group and its
   binding list is, child by child and in order, the INDEPENDENT READING of the node's children
   ([read_child]: what the instance's references resolve to in the libraries / the node of the
   group carrying the instantiated id) - for every definition order. *)
Theorem C07_retry_complete_bindings :
  forall mk sc o nodes errs (rank : ident -> nat),
    NoDup (map n_id nodes) ->
    (forall n u, In n nodes -> ~ In (u, n_id n) (lib_list o LNodes)) ->
    (forall n c e loaded, In n nodes -> In c (n_children n) -> load_child sc o loaded c <> CRaise e) ->
    (forall n t h, In n nodes -> In (NNode t h) (n_children n) ->
       h = true /\ t <> 0%N /\ exists m, In m nodes /\ n_id m = t /\ rank t < rank (n_id n)) ->
    exists l,
      load_group mk sc o nodes [] errs = NFinished l [] errs /\
      (forall n, In n nodes -> In (n_uid n, n_id n) (map lnode_obj l)) /\
      (forall ln, In ln l -> exists n, In n nodes /\ fst ln = (n_uid n, n_id n) /\
                             Forall2 (fun c b => read_child o nodes c = Some b) (n_children n) (snd ln)).
Proof.
  intros mk sc o nodes errs rank Hnd Hlib Hg Hdef.
  apply (retry_complete_bindings mk sc o nodes errs rank Hnd Hlib); [|exact Hdef].
  intros n Hin c e loaded Hc. apply (Hg n c e loaded Hin Hc).
Qed.
Print Assumptions C07_retry_complete_bindings.

(* the extra hypotheses are met by the chain of C07_retry_complete_hypotheses_met *)
Example C07_retry_complete_bindings_hypotheses_met :
  let o : objs := [(LGeometry, (100, 10))]%N in
  let nodes := [TNode 201 21 [NNode 22 true]; TNode 202 22 [NNode 23 true; NInst (Ref LGeometry 10 true SUrl) []];
                TNode 203 23 []]%N in
  NoDup (map n_id nodes) /\ (forall n u, In n nodes -> ~ In (u, n_id n) (lib_list o LNodes)) /\
  map (read_child o nodes) [NNode 23%N true; NInst (Ref LGeometry 10%N true SUrl) []]
    = [Some (BNode 203%N); Some (BInst 100%N [])].
Proof.
  simpl. split; [|split].
  - repeat constructor; simpl; intuition discriminate.
  - intros n u _ H. exact H.
  - vm_compute. reflexivity.
Qed.

(* ---- Stage 2: the effect-internal reference kinds (texture -> sampler -> surface -> image) *)

(* identity: a sampler is bound to the Surface that THIS effect's scope holds under the named sid,
   a later newparam with the same sid replaces the earlier one and leaves other sids alone;
   whatever the scope holds was put there by a newparam of this effect; a texture is bound to a
   sampler of this effect's scope; and the effect sees the rest of the document only through the
   image library (nothing of another effect is visible) *)
Theorem C07_effect_links_identity :
  (forall o sid u src r sc acc su simg, eget sc src = Some (ESurface su simg) ->
     load_params o (PSampler sid u src :: r) sc acc =
     load_params o r (eset sc sid (ESampler u simg)) (acc ++ [su])) /\
  (forall sc k v, eget (eset sc k v) k = Some v) /\
  (forall sc k v k', k' <> k -> eget (eset sc k v) k' = eget sc k') /\
  (forall o ps sc' acc', load_params o ps [] [] = Ok (sc', acc') ->
     forall k v, In (k, v) sc' -> from_params ps k v) /\
  (forall sc name u, find_sampler sc name = Some u -> exists k i, In (k, ESampler u i) sc) /\
  (forall o o' b, lib_list o LImages = lib_list o' LImages -> load_effect_body o b = load_effect_body o' b).
Proof.
  split; [intros o sid u src r sc acc su simg H; simpl; rewrite H; reflexivity|].
  split; [exact eget_eset_same|]. split; [exact eget_eset_other|].
  split; [intros o ps sc' acc' H k v Hin; destruct (load_params_scope o ps [] [] sc' acc' H k v Hin) as [[]|A]; exact A|].
  split; [exact find_sampler_in|exact load_effect_isolated].
Qed.
Print Assumptions C07_effect_links_identity.

(* dangling: a surface whose image is not in the image library, a sampler whose source is not a
   Surface of this effect's scope, a bump map whose texture names no sampler: DaeBrokenRefError;
   a shading property whose texture names no sampler is dropped (bound to nothing - never to
   another object) *)
Theorem C07_effect_links_dangling :
  (forall o sid u img r sc acc, lookup o LImages img = None ->
     load_params o (PSurface sid u img :: r) sc acc = Raise DaeBrokenRef) /\
  (forall o sid u src r sc acc, (forall su simg, eget sc src <> Some (ESurface su simg)) ->
     load_params o (PSampler sid u src :: r) sc acc = Raise DaeBrokenRef) /\
  (forall o ps texs name sc binds, load_params o ps [] [] = Ok (sc, binds) -> find_sampler sc name = None ->
     load_effect_body o (FX ps texs (Some name)) = Raise DaeBrokenRef) /\
  (forall o ps name sc binds, load_params o ps [] [] = Ok (sc, binds) -> find_sampler sc name = None ->
     load_effect_body o (FX ps [name] None) = Ok (binds ++ [0%N])).
Proof.
  split; [intros o sid u img r sc acc H; simpl; rewrite H; reflexivity|].
  split.
  { intros o sid u src r sc acc H. simpl. destruct (eget sc src) as [[su simg|? ?|]|] eqn:E; try reflexivity.
    exfalso. exact (H su simg eq_refl). }
  split.
  { intros o ps texs name sc binds H1 H2. unfold load_effect_body. simpl. rewrite H1, H2. reflexivity. }
  intros o ps name sc binds H1 H2. unfold load_effect_body. simpl. rewrite H1, H2. reflexivity.
Qed.
Print Assumptions C07_effect_links_dangling.

(* Non-vacuity: image 5 (id 50); an effect whose sampler names its own surface and whose texture
   names its own sampler; then the sampler source is re-pointed at a sid defined only in ANOTHER
   effect (77): broken reference *)
Example C07_effect_links_nonvacuous :
  let o : objs := [(LImages, (5, 50))]%N in
  load_effect_body o (FX [PSurface 61 601 50; PSampler 62 602 61; PValue 63] [62] (Some 62))%N = Ok [5; 601; 602; 602]%N /\
  load_effect_body o (FX [PSurface 61 601 50; PSampler 62 602 77] [62] None)%N = Raise DaeBrokenRef /\
  load_effect_body o (FX [PSurface 61 601 50; PSampler 62 602 61] [77] None)%N = Ok [5; 601; 0]%N /\
  load_effect_body o (FX [PSurface 61 601 51; PSampler 62 602 61] [62] None)%N = Raise DaeBrokenRef.
Proof. vm_compute. repeat split; reflexivity. Qed.

(* the implicit-surface path: a texture that names no sampler of this effect but the id of a library
   image is bound to an implicit surface made from THE image carrying that id (identity); a sampler
   of the scope always wins; a name that is neither a sampler of the scope nor an image id is
   dropped - never bound to anything (dangling) *)
Theorem C07_texture_names_image :
  (forall o sc name iu, bind_texture o sc name = TImplicit iu ->
     find_sampler sc name = None /\ In (iu, name) (lib_list o LImages)) /\
  (forall o sc name u, find_sampler sc name = Some u -> bind_texture o sc name = TSampler u) /\
  (forall o sc name, find_sampler sc name = None -> (forall u, ~ In (u, name) (lib_list o LImages)) ->
     bind_texture o sc name = TDropped).
Proof. split; [exact bind_texture_implicit|]. split; [exact bind_texture_sampler_first|exact bind_texture_dropped]. Qed.
Print Assumptions C07_texture_names_image.

Example C07_texture_names_image_nonvacuous :
  let o : objs := [(LImages, (5, 50))]%N in
  bind_texture o [] 50%N = TImplicit 5%N /\ bind_texture o [] 51%N = TDropped /\
  bind_texture o [(50, ESampler 7 9)]%N 50%N = TSampler 7%N.
Proof. vm_compute. repeat split; reflexivity. Qed.
