#!/bin/sh
# Build the framework from a fresh restore, offline: regenerate Gen/*.v from /repo, full .vo
# build of the Coq development from clean, forbidden-vernacular scan, coqchk.
set -e
cd "$(dirname "$0")"
/venv/bin/python - <<'PY'
import sys, subprocess, os
sys.path.insert(0, os.getcwd())
from harness import core
ok, log, regen = core.build(clean=True)
print(log[-3000:])
for k, v in regen.items():
    print('regen', k, v)
hits = core.forbidden_scan()
for h in hits:
    print('FORBIDDEN', h)
if hits:
    sys.exit(1)
# a broken proof is reported by the property's own check, not by setup; setup only needs the
# toolchain to work
sys.exit(0)
PY
# independent re-check of the compiled property statements with coqchk (axiom report kept
# beside the build, one log per property, 8 at a time)
mkdir -p coq/coqchk
( cd coq && ls Properties/*.vo 2>/dev/null | sed 's/\.vo$//; s/^Properties\///' | \
  xargs -P 8 -I{} sh -c 'timeout 3000 coqchk -silent -o -Q . PC PC.Properties.{} > coqchk/{}.log 2>&1 || echo "coqchk {} exited non-zero (see coq/coqchk/{}.log)"' )
for f in coq/coqchk/*.log; do echo "== $f"; sed -n '/CONTEXT SUMMARY/,$p' "$f" | grep -A4 "Axioms" | head -12; done
