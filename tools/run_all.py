#!/venv/bin/python
"""Run every claimed check's quick (or thorough) command on the unchanged tree and summarise.
usage: run_all.py [--tier quick|thorough] [--seed N] [ids...]"""
import json, os, subprocess, sys, time
VERIF = os.path.dirname(os.path.dirname(os.path.abspath(__file__)))
tier, seed, ids = 'quick', None, []
a = sys.argv[1:]
i = 0
while i < len(a):
    if a[i] == '--tier': tier = a[i+1]; i += 1
    elif a[i] == '--seed': seed = a[i+1]; i += 1
    else: ids.append(a[i])
    i += 1
m = json.load(open(os.path.join(VERIF, 'MANIFEST.json')))
bad = 0
for c in m['checks']:
    pid = c['property_id']
    if ids and pid not in ids: continue
    env = dict(os.environ)
    if seed is not None: env['VERIF_SEED'] = seed
    t0 = time.time()
    r = subprocess.run(c['quick_cmd'] if tier == 'quick' else c['thorough_cmd'], shell=True, cwd=VERIF, capture_output=True, text=True, env=env)
    viol = [l for l in r.stdout.split('\n') if l.startswith('VIOLATION')]
    kf = [l for l in r.stdout.split('\n') if l.startswith('KNOWN-FINDING')]
    ok = r.returncode == 0 and not viol
    bad += 0 if ok else 1
    last = [l for l in r.stdout.strip().split('\n') if l][-1:] 
    print('%s %-4s exit=%d %5.0fs known=%d %s %s' % ('ok  ' if ok else 'BAD ', pid, r.returncode, time.time()-t0, len(kf), viol[:1], last[0][:150] if last else r.stderr[-200:]), flush=True)
sys.exit(1 if bad else 0)
