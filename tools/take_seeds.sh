#!/bin/sh
# take_seeds.sh c13 [tag]: copy /tmp/seed_<p><tag>_out/m* into seeded/, drop the worktree, confirm, run the check
p=$1; tag=${2:-a}; P=$(echo $p | tr a-z A-Z)
cd /verif
names=""
for m in m1 m2 m3; do
  [ -d /tmp/seed_${p}${tag}_out/$m ] || continue
  n=$P-$m; [ "$tag" != "a" ] && n=$P-${tag}$m
  mkdir -p seeded/$n; cp /tmp/seed_${p}${tag}_out/$m/patch.diff /tmp/seed_${p}${tag}_out/$m/demo.py /tmp/seed_${p}${tag}_out/$m/meta.json seeded/$n/
  names="$names $n"
done
git -C /repo worktree remove --force /tmp/seed_${p}${tag} 2>/dev/null; rm -rf /tmp/seed_${p}${tag}_out
tools/confirm_seed.py $names 2>&1 | cut -c1-30
VERIF_JOBS=${VERIF_JOBS:-8} tools/run_seeded.py $names 2>&1 | cut -c1-150
