"""Generator of coq/Proofs/NumFmtRegions.v (C01): python tools/gen_numfmt_regions.py -12 5 > coq/Proofs/NumFmtRegions.v
One instance of the hand-written fine-grid proof (Proofs/NumFmt.v, region [1,2)) per (decade, binade) cell."""
import math, sys
def ilog2(n): return n.bit_length()-1
def cell(d, e):
    """fine-grid cell: value in [10^d,10^(d+1)) and [2^e,2^(e+1)); returns Coq text or None"""
    q=d-6; P=-q; c=10**(6-d)            # D = value * c
    # D range
    from fractions import Fraction as F
    lo=max(F(10)**d, F(2)**e); hi=min(F(10)**(d+1), F(2)**(e+1))
    if lo>=hi: return None
    L=math.ceil(lo*c); U=math.ceil(hi*c)     # L <= D < U
    if d<0 and L==10**6: L+=1
    if L>=U: return None
    # fine condition with margin: 2^(e-24) + 2^(e-53)... < 0.5*10^q  <=> checked loosely
    if F(2)**(e-24)*F(1001,1000) >= F(10)**q/2: return None
    S53=52-e; d1=2**(23-e); E24=e-23
    den=10**P
    # keep clear of the top of the binade: the binary64 image must stay below 2^53 - 2^28
    U=min(U, (((2**53-2**28-1)*den-1)//2**S53)+1)
    if L>=U: return None
    b=ilog2(den); a=ilog2(L); two_logs = (U-1)>=2**(a+1)
    nm='d%s_e%s'%(str(d).replace('-','m'),str(e).replace('-','m'))
    out=[]
    # ---- round_bits_53
    out.append('Lemma rb53_%s D : %d <= D < %d -> round_bits D %d 53 = (div_half_even (D * %d) %d, %d).'%(nm,L,U,den,2**S53,den,-S53))
    out.append('Proof.')
    out.append('  intro H. unfold round_bits. change (Z.log2 %d) with %d. change (53 - 1) with 52.'%(den,b))
    out.append('  pose proof (dhe_spec (D * %d) %d ltac:(lia) ltac:(lia)) as S. cbv zeta in S.'%(2**S53,den))
    out.append('  set (M := div_half_even (D * %d) %d) in *.'%(2**S53,den))
    out.append('  assert (HM : (M =? 9007199254740992) = false) by (apply Z.eqb_neq; lia).')
    def branch(logD):
        s0=logD-b-52; s=-S53; t=[]
        t.append('    change (%d - %d - 52) with (%d). unfold scaled. change (0 <=? %d) with false. cbv iota. change (- (%d)) with %d. change (2 ^ %d) with %d.'%(logD,b,s0,s0,s0,-s0,-s0,2**(-s0)))
        t.append('    change (2 ^ 52) with 4503599627370496. change (2 ^ 53) with 9007199254740992.')
        if s0==s:
            t.append('    assert (A : (D * %d / %d <? 4503599627370496) = false) by (apply Z.ltb_ge; apply div_ge; lia).'%(2**(-s0),den))
            t.append('    assert (B : (9007199254740992 <=? D * %d / %d) = false) by (apply Z.leb_gt; apply div_lt; lia).'%(2**(-s0),den))
            t.append('    rewrite A, B.')
        elif s0==s+1:
            t.append('    assert (A : (D * %d / %d <? 4503599627370496) = true) by (apply Z.ltb_lt; apply div_lt; lia).'%(2**(-s0),den))
            t.append('    rewrite A. change (%d - 1) with (%d).'%(s0,s))
        elif s0==s-1:
            t.append('    assert (A : (D * %d / %d <? 4503599627370496) = false) by (apply Z.ltb_ge; apply div_ge; lia).'%(2**(-s0),den))
            t.append('    assert (B : (9007199254740992 <=? D * %d / %d) = true) by (apply Z.leb_le; apply div_ge; lia).'%(2**(-s0),den))
            t.append('    rewrite A, B. change (%d + 1) with (%d).'%(s0,s))
        else: raise Exception('s0 far')
        t.append('    change (0 <=? %d) with false. cbv iota. change (- (%d)) with %d. change (2 ^ %d) with %d. fold M. rewrite HM. reflexivity.'%(s,s,-s,-s,2**(-s)))
        return t
    def logfact(v): return 'apply Z.log2_unique; [lia|]; change (2 ^ %d) with %d; change (2 ^ (%d + 1)) with %d; lia'%(v,2**v,v,2**(v+1))
    if two_logs:
        out.append('  destruct (Z.lt_ge_cases D %d) as [HL|HL].'%(2**(a+1)))
        out.append('  - assert (LG : Z.log2 D = %d) by (%s). rewrite LG.'%(a,logfact(a))); out+=branch(a)
        out.append('  - assert (LG : Z.log2 D = %d) by (%s). rewrite LG.'%(a+1,logfact(a+1))); out+=branch(a+1)
    else:
        out.append('  assert (LG : Z.log2 D = %d) by (%s). rewrite LG.'%(a,logfact(a))); out+=[x.replace('    ','  ',1) for x in branch(a)]
    out.append('Qed.')
    # ---- fmt7
    k0=(e*30102)//100000-2
    low_needed = (d>=0)
    Mlow = 10**d*d1 if d>=0 else None
    hyp_low = (' -> %d <= M'%Mlow) if low_needed else ''
    out.append('Lemma fmt7_%s M D : 8388608 <= M < 16777216 -> %d <= D < %d%s ->'%(nm,L,U,hyp_low))
    out.append('  - %d < 2 * (M * %d - D * %d) < %d -> fmt7 M (%d) = (D, %d).'%(d1,c,d1,d1,E24,q))
    out.append('Proof.')
    out.append('  intros HM HD %sHc.'%('HLow ' if low_needed else ''))
    out.append('  unfold fmt7. assert (Z0 : (M =? 0) = false) by (apply Z.eqb_neq; lia). rewrite Z0.')
    out.append('  assert (K : log10_floor M (%d) = %d).'%(E24,d))
    out.append('  { unfold log10_floor. assert (LG : Z.log2 M = 23) by (apply Z.log2_unique; [lia|]; change (2 ^ 23) with 8388608; change (2 ^ (23 + 1)) with 16777216; lia).')
    out.append('    rewrite LG. change ((23 + %d) * 30102 / 100000 - 2) with (%d).'%(E24,k0))
    k=k0
    while True:
        s=k+1
        out.append('    rewrite find_k_step. unfold frac at 1. change (0 <=? %d) with false. cbv iota. change (%d + 1) with (%d). change (- (%d)) with %d. change (2 ^ %d) with %d.'%(E24,k,s,E24,-E24,-E24,d1))
        last = (k==d)
        if s>=0:
            out.append('    change (0 <=? %d) with true. cbv iota. change (%d * 10 ^ %d) with %d.'%(s,d1,s,d1*10**s))
            cmpv='(M <? %d)'%(d1*10**s)
        else:
            out.append('    change (0 <=? %d) with false. cbv iota. change (- (%d)) with %d. change (10 ^ %d) with %d.'%(s,s,-s,-s,10**(-s)))
            cmpv='(M * %d <? %d)'%(10**(-s),d1)
        if last:
            out.append('    assert (A%d : %s = true) by (apply Z.ltb_lt; lia). rewrite A%d. reflexivity. }'%(abs(k)+100*(k<0),cmpv,abs(k)+100*(k<0)))
            break
        out.append('    assert (A%d : %s = false) by (apply Z.ltb_ge; lia). rewrite A%d.'%(abs(k)+100*(k<0),cmpv,abs(k)+100*(k<0)))
        k+=1
        if k-k0>7: raise Exception('fuel')
    out.append('  rewrite K. unfold frac. change (0 <=? %d) with false. cbv iota. change (%d - 6) with (%d). change (0 <=? %d) with false. cbv iota.'%(E24,d,q,q))
    out.append('  change (- (%d)) with %d. change (- (%d)) with %d. change (2 ^ %d) with %d. change (10 ^ %d) with %d.'%(E24,-E24,q,P,-E24,d1,P,den))
    out.append('  rewrite (dhe_unique (M * %d) %d D) by lia.'%(den,d1))
    out.append('  assert (E : (D =? 10000000) = false) by (apply Z.eqb_neq; lia). rewrite E. reflexivity.')
    out.append('Qed.')
    # ---- main
    out.append('Lemma fine_%s D : %d <= D < %d -> let \'(M, E) := parse32 D (%d) in fmt7 M E = (D, %d).'%(nm,L,U,q,q))
    out.append('Proof.')
    out.append('  intro H. unfold parse32. assert (Z0 : (D =? 0) = false) by (apply Z.eqb_neq; lia). rewrite Z0.')
    out.append('  change (0 <=? %d) with false. cbv iota. change (- (%d)) with %d. change (10 ^ %d) with %d.'%(q,q,P,P,den))
    out.append('  rewrite (rb53_%s D H).'%nm)
    out.append('  pose proof (dhe_spec (D * %d) %d ltac:(lia) ltac:(lia)) as S1. cbv zeta in S1.'%(2**S53,den))
    out.append('  set (M53 := div_half_even (D * %d) %d) in *.'%(2**S53,den))
    out.append('  change (0 <=? %d) with false. cbv iota. change (- (%d)) with %d. change (2 ^ %d) with %d.'%(-S53,-S53,S53,S53,2**S53))
    out.append('  assert (B53 : 4503599627370496 <= M53 < 9007199254740992 - 268435456) by lia.')
    out.append('  rewrite (rb24_e%s M53 B53).'%(str(e).replace('-','m')))
    out.append('  pose proof (dhe_spec (M53 * %d) %d ltac:(lia) ltac:(lia)) as S2. cbv zeta in S2.'%(d1,2**S53))
    out.append('  set (M24 := div_half_even (M53 * %d) %d) in *.'%(d1,2**S53))
    out.append('  apply fmt7_%s; lia.'%nm)
    out.append('Qed.')
    return nm, L, U, q, '\n'.join(out)

def rb24(e):
    S53=52-e; d1=2**(23-e); E24=e-23; en=str(e).replace('-','m')
    o=[]
    o.append('Lemma rb24_e%s M : 4503599627370496 <= M < 9007199254740992 - 268435456 ->'%en)
    o.append('  round_bits M %d 24 = (div_half_even (M * %d) %d, %d).'%(2**S53,d1,2**S53,E24))
    o.append('Proof.')
    o.append('  intro H. unfold round_bits. change (Z.log2 %d) with %d. change (24 - 1) with 23.'%(2**S53,S53))
    o.append('  assert (LG : Z.log2 M = 52) by (apply Z.log2_unique; [lia|]; change (2 ^ 52) with 4503599627370496; change (2 ^ (52 + 1)) with 9007199254740992; lia).')
    o.append('  rewrite LG. change (52 - %d - 23) with (%d). unfold scaled. change (0 <=? %d) with false. cbv iota.'%(S53,E24,E24))
    o.append('  change (- (%d)) with %d. change (2 ^ %d) with %d. change (2 ^ 23) with 8388608. change (2 ^ 24) with 16777216.'%(E24,-E24,-E24,d1))
    o.append('  pose proof (dhe_spec (M * %d) %d ltac:(lia) ltac:(lia)) as S. cbv zeta in S.'%(d1,2**S53))
    o.append('  set (M24 := div_half_even (M * %d) %d) in *.'%(d1,2**S53))
    o.append('  assert (A : (M * %d / %d <? 8388608) = false) by (apply Z.ltb_ge; apply div_ge; lia).'%(d1,2**S53))
    o.append('  assert (B : (16777216 <=? M * %d / %d) = false) by (apply Z.leb_gt; apply div_lt; lia).'%(d1,2**S53))
    o.append('  rewrite A, B. change (0 <=? %d) with false. cbv iota. change (- (%d)) with %d. change (2 ^ %d) with %d.'%(E24,E24,-E24,-E24,d1))
    o.append('  fold M24. assert (HM : (M24 =? 16777216) = false) by (apply Z.eqb_neq; lia). rewrite HM. reflexivity.')
    o.append('Qed.')
    return '\n'.join(o)

if __name__=='__main__':
    dlo,dhi=int(sys.argv[1]),int(sys.argv[2])
    cells=[]; es=set()
    for d in range(dlo,dhi+1):
        for e in range(-40,24):
            r=cell(d,e)
            if r: cells.append(r); es.add(e)
    print('(* GENERATED by a script from the two hand-written region proofs of Proofs/NumFmt.v: the same')
    print('   argument, one instance per (decade, binade) cell with the constants of that cell. *)')
    print('From Coq Require Import ZArith Lia Bool.\nFrom PC Require Import Model.NumFmt Proofs.NumFmt.\nOpen Scope Z_scope.\n')
    for e in sorted(es): print(rb24(e)+'\n')
    for nm,L,U,q,t in cells: print(t+'\n')
    # table
    print('Definition covered (D q : Z) : bool :=')
    print('  '+' ||\n  '.join('((q =? %d) && (%d <=? D) && (D <? %d))'%(q,L,U) for nm,L,U,q,t in cells)+'.\n')
    print('Theorem fine_grid_covered D q : covered D q = true -> let \'(M, E) := parse32 D q in fmt7 M E = (D, q).')
    print('Proof.\n  unfold covered. intro H.')
    print('  repeat (apply orb_true_iff in H; destruct H as [H|H]);')
    print('    apply andb_true_iff in H; destruct H as [H H3]; apply andb_true_iff in H; destruct H as [H1 H2];')
    print('    apply Z.eqb_eq in H1; apply Z.leb_le in H2; apply Z.ltb_lt in H3; subst q.')
    for nm,L,U,q,t in cells: print('  - apply fine_%s; lia.'%nm)
    print('Qed.')
    sys.stderr.write('%d cells\n'%len(cells))
