#!/usr/bin/env python3
"""Rewrite the seeded-changes table in DESIGN.md (between the SEEDED-TABLE markers) from
seeded/*/meta.json and seeded/RESULTS.json."""
import json, os, re
V = os.path.dirname(os.path.dirname(os.path.abspath(__file__)))
res = json.load(open(os.path.join(V, 'seeded', 'RESULTS.json')))
rows = []
for name in sorted(os.listdir(os.path.join(V, 'seeded'))):
    d = os.path.join(V, 'seeded', name)
    if not os.path.isdir(d):
        continue
    meta = json.load(open(os.path.join(d, 'meta.json')))
    r = res.get(name, {})
    what = ' '.join(str(meta.get('what', '')).split())
    needs = ' '.join(str(meta.get('needs', '')).split())
    what = (what[:230] + '…') if len(what) > 231 else what
    needs = (needs[:170] + '…') if len(needs) > 171 else needs
    st = r.get('status', 'not run')
    if meta.get('obsolete_after'):
        st = 'no longer applicable: the code it changed was replaced by fix %s (caught on the HEAD it was written for)' % meta['obsolete_after']
    if st == 'caught':
        st = 'caught' + (' (tie broke, no failing input)' if r.get('no_failing_input') else ' (failing input)')
    rows.append('| %s | %s | %s | %s | %s |' % (name, meta.get('property'), what.replace('|', '/'), needs.replace('|', '/'), st))
caught = sum(1 for r in res.values() if r.get('status') == 'caught')
table = ['<!-- SEEDED-TABLE-BEGIN -->',
         '%d seeded changes, %d caught by the quick tier of the property they were written against (last full run recorded in seeded/RESULTS.json).' % (len(rows), caught),
         '', '| change | property | what it does | needs | `./check <property> quick` |', '|---|---|---|---|---|'] + rows + ['<!-- SEEDED-TABLE-END -->']
p = os.path.join(V, 'DESIGN.md')
s = open(p).read()
if '<!-- SEEDED-TABLE-BEGIN -->' in s:
    s = re.sub(r'<!-- SEEDED-TABLE-BEGIN -->.*?<!-- SEEDED-TABLE-END -->', lambda m: '\n'.join(table), s, flags=re.S)
else:
    s += '\n\n## 13. Seeded changes and which checks catch them\n\n' + SEED_INTRO + '\n\n' + '\n'.join(table) + '\n' if False else ''
open(p, 'w').write(s)
print(len(rows), 'rows;', caught, 'caught')
