#!/usr/bin/env python3
"""Rewrite the as-built table in DESIGN.md (between ASBUILT-TABLE markers) from evidence/*.json,
harness/manifest.d/*.json, known_findings.json and coq/Properties/*.v."""
import json, os, re
V = os.path.dirname(os.path.dirname(os.path.abspath(__file__)))
kf = json.load(open(os.path.join(V, 'known_findings.json')))
def gen_deps(relpath, seen=None):
    seen = set() if seen is None else seen
    if relpath in seen:
        return set()
    seen.add(relpath)
    fp = os.path.join(V, 'coq', relpath)
    if not os.path.exists(fp):
        return set()
    out = set()
    for m in re.finditer(r'\b(Base|Gen|Model|Proofs|Check|Properties)\.([A-Za-z0-9_]+)', open(fp).read()):
        d, n = m.group(1), m.group(2)
        if d == 'Gen':
            out.add(n)
        out |= gen_deps('%s/%s.v' % (d, n), seen)
    return out


rows = []
for i in range(1, 21):
    pid = 'C%02d' % i
    evp = os.path.join(V, 'evidence', pid + '.json')
    ev = json.load(open(evp)) if os.path.exists(evp) else {}
    cov = ev.get('coverage', {})
    src = os.path.join(V, 'coq', 'Properties', pid + '.v')
    text = open(src).read() if os.path.exists(src) else ''
    nthm = len(re.findall(r'^\s*Theorem\s', text, flags=re.M))
    nex = len(re.findall(r'^\s*Example\s', text, flags=re.M))
    partial = re.findall(r'Theorem\s+(\S*_partial\S*)', text)
    refuted = re.findall(r'(?:Theorem|Example)\s+(\S*_refuted\S*)', text)
    axioms = sorted({a for l in cov.get('axioms_per_theorem', {}).values() for a in l})
    fixed = [f for f in kf.get('fixed', []) if 'property=%s ' % pid in f]
    commits = []
    for f in fixed:
        m = re.search(r'property=%s\s+([0-9a-f]{7})' % pid, f)
        if m: commits.append(m.group(1))
    finds = [f['signature'] for f in kf.get('findings', []) if f.get('property') == pid]
    regen = ', '.join(sorted(gen_deps('Properties/%s.v' % pid) | gen_deps('Check/%s.v' % pid))) or '– (correspondence only)'
    rows.append('| %s | %d + %d ex. | %s | %s | %s | %s | %s | %s |' % (
        pid, nthm, nex, ', '.join(partial + refuted) or '–', ', '.join(a.split('.')[-1] for a in axioms) or 'closed',
        regen, cov.get('evaluations', '?'), ' '.join(commits) or '–', '; '.join(finds) or '–'))
table = ['<!-- ASBUILT-TABLE-BEGIN -->',
         '| id | theorems | `_partial` / `_refuted` | axioms (Print Assumptions) | regenerated fragments | quick cases | `fix:` commits in /repo | known findings |',
         '|---|---|---|---|---|---|---|---|'] + rows + ['<!-- ASBUILT-TABLE-END -->']
p = os.path.join(V, 'DESIGN.md')
s = open(p).read()
s = re.sub(r'<!-- ASBUILT-TABLE-BEGIN -->.*?<!-- ASBUILT-TABLE-END -->', lambda m: '\n'.join(table), s, flags=re.S)
open(p, 'w').write(s)
print('\n'.join(rows))
