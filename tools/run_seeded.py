#!/venv/bin/python
"""Run the registered checks against every seeded change under /verif/seeded/<name>/
(patch.diff + meta.json {"property": "Cxx", ...}).  Each change is applied to a scratch worktree
of /repo's HEAD (never to /repo itself), the property's check is run with VERIF_REPO pointing at
it, and the worktree is removed.  usage: run_seeded.py [name ...] [--tier quick|thorough] [--all-props]"""
import json
import os
import subprocess
import sys
import time

VERIF = os.path.dirname(os.path.dirname(os.path.abspath(__file__)))
SEEDED = os.path.join(VERIF, 'seeded')


def sh(cmd, **kw):
    return subprocess.run(cmd, shell=True, capture_output=True, text=True, **kw)


def main(argv):
    tier = 'quick'
    names = []
    i = 0
    while i < len(argv):
        if argv[i] == '--tier':
            tier = argv[i + 1]
            i += 1
        else:
            names.append(argv[i])
        i += 1
    if not names:
        names = sorted(d for d in os.listdir(SEEDED) if os.path.isdir(os.path.join(SEEDED, d)))
    results = {}
    rp = os.path.join(SEEDED, 'RESULTS.json')
    if os.path.exists(rp):
        results = json.load(open(rp))
    for name in names:
        d = os.path.join(SEEDED, name)
        meta = json.load(open(os.path.join(d, 'meta.json')))
        pid = meta['property']
        if meta.get('obsolete_after'):
            results[name] = {'property': pid, 'status': 'obsolete', 'detail': 'code replaced by fix %s' % meta['obsolete_after']}
            print('%-14s %s obsolete after %s' % (name, pid, meta['obsolete_after']))
            continue
        wt = '/tmp/seedrun_%s_%d' % (name, os.getpid())
        sh('git -C /repo worktree remove --force %s' % wt)
        r = sh('git -C /repo worktree add -q %s HEAD' % wt)
        if r.returncode != 0:
            print(name, 'worktree failed', r.stderr)
            continue
        try:
            r = sh('git -C %s apply %s' % (wt, os.path.join(d, 'patch.diff')))
            if r.returncode != 0:
                results[name] = {'property': pid, 'status': 'patch-does-not-apply', 'detail': r.stderr[-300:]}
                print('%-14s %s patch does not apply to current /repo HEAD' % (name, pid))
                continue
            t0 = time.time()
            env = dict(os.environ, VERIF_REPO=wt)
            c = subprocess.run(['./check', pid, tier], cwd=VERIF, capture_output=True, text=True, env=env, timeout=3600)
            viol = [l for l in c.stdout.split('\n') if l.startswith('VIOLATION')]
            caught = c.returncode == 1 and bool(viol)
            results[name] = {'property': pid, 'status': 'caught' if caught else 'MISSED', 'exit': c.returncode,
                             'violations': viol[:3], 'tier': tier, 'wall_s': round(time.time() - t0, 1),
                             'no_failing_input': all('no-failing-input-found' in v for v in viol) if viol else None}
            print('%-14s %s %s exit=%d %s (%.0fs)' % (name, pid, results[name]['status'], c.returncode, viol[:1], time.time() - t0))
        finally:
            sh('git -C /repo worktree remove --force %s' % wt)
    # merge under a lock: several runs (different properties) may finish at different times
    import fcntl
    with open(rp + '.lock', 'w') as lk:
        fcntl.flock(lk, fcntl.LOCK_EX)
        cur = json.load(open(rp)) if os.path.exists(rp) else {}
        for name in names:
            if name in results:
                cur[name] = results[name]
        with open(rp, 'w') as f:
            json.dump(cur, f, indent=1, sort_keys=True)


if __name__ == '__main__':
    main(sys.argv[1:])
