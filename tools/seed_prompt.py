#!/usr/bin/env python3
"""Print the prompt given to a seeding sub-agent for one property (only the property text and a
scratch worktree; nothing from /verif) and create its worktree.  usage: seed_prompt.py Cxx [tag]"""
import json
import subprocess
import sys

pid = sys.argv[1]
tag = sys.argv[2] if len(sys.argv) > 2 else 'a'
wt = '/tmp/seed_%s%s' % (pid.lower(), tag)
out = wt + '_out'
p = next(json.loads(l) for l in open('/verif/properties.jsonl') if json.loads(l)['id'] == pid)
subprocess.run(['git', '-C', '/repo', 'worktree', 'remove', '--force', wt], capture_output=True)
subprocess.run(['git', '-C', '/repo', 'worktree', 'add', '-q', wt, 'HEAD'], check=True)
print(f"""You are testing how well a semantic property of the Python library pycollada is protected. You work ONLY inside the scratch git worktree {wt} (a checkout of the library; run its tests with `cd {wt} && /venv/bin/python -m pytest -q -p no:cacheprovider collada` — at baseline all 58 tests pass and must still all pass with each of your changes). Do NOT look at or touch /repo or /verif or anything outside {wt} (except creating files under {out}/). Use `PYTHONPATH={wt} /venv/bin/python` to run code against the worktree. numpy is available; lxml and PIL are not.

The property (of the library as a user relies on it):

TITLE: {p['title']}
STATEMENT: {p['statement']}
QUANTIFIED OVER: {p['quantifier']['text']}
(The mechanisms live mainly in: {', '.join(p['anchors']['files'])}.)

YOUR TASK: produce THREE independent, realistic code changes to the library (each a separate small patch against the clean worktree — like a plausible refactoring, optimisation or bug a maintainer could introduce) such that each change (1) breaks the property above, (2) still imports and keeps ALL existing tests passing, (3) is SUBTLE: it needs something specific to manifest — an unusual input, a particular multi-step sequence of operations, a fault at a particular point, a particular interleaving, or two cooperating sites that each look fine alone — NOT something ordinary use would expose at once. Make the three changes differ in mechanism and in the part of the property they break.

For each change i in 1..3 create directory {out}/m<i>/ containing: `patch.diff` (output of `git diff` in the worktree; must apply cleanly to the clean worktree with `git apply`), `demo.py` (a small standalone program using only the public API that exits 0 printing PASS on the CLEAN library and exits 1 printing FAIL on the changed library; run as `PYTHONPATH={wt} /venv/bin/python demo.py`; it must not write outside a temporary directory), and `meta.json` with keys `property` ("{pid}"), `what` (one paragraph: what the change does), `needs` (what specific situation is needed for it to manifest), `ran` (the exact commands you ran and their outcomes: test suite result with the change, demo on clean, demo on changed). After producing each patch reset the worktree to clean (`git -C {wt} checkout -- .`) before the next. Verify everything yourself. Final reply: one line per change + confirmation of the three checks.""")
