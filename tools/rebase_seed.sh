#!/bin/sh
# rebase_seed.sh name...: re-create seeded/<name>/patch.diff against /repo HEAD with fuzzy patch(1)
cd /verif
for n in "$@"; do
  wt=/tmp/seedrebase_$n
  git -C /repo worktree remove --force $wt 2>/dev/null
  git -C /repo worktree add -q $wt HEAD
  if (cd $wt && patch -p1 -F3 --no-backup-if-mismatch -s < /verif/seeded/$n/patch.diff); then
    cp seeded/$n/patch.diff seeded/$n/patch.orig.diff 2>/dev/null
    (cd $wt && find . -name '*.orig' -delete; git diff) > seeded/$n/patch.diff
    echo "$n rebased"
  else
    echo "$n NEEDS MANUAL REBASE"
  fi
  git -C /repo worktree remove --force $wt
done
