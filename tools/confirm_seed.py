#!/venv/bin/python
"""Confirm a seeded change independently: in a scratch worktree of /repo HEAD the demo passes on the
clean library, the patch applies, the test suite still passes with it, and the demo fails with it.
Writes the outcome into seeded/<name>/meta.json ("confirmed").  usage: confirm_seed.py name ..."""
import json
import os
import subprocess
import sys

VERIF = os.path.dirname(os.path.dirname(os.path.abspath(__file__)))


def sh(cmd, **kw):
    return subprocess.run(cmd, shell=True, capture_output=True, text=True, **kw)


for name in sys.argv[1:]:
    d = os.path.join(VERIF, 'seeded', name)
    wt = '/tmp/seedconf_%s_%d' % (name, os.getpid())
    sh('git -C /repo worktree add -q %s HEAD' % wt)
    try:
        env = dict(os.environ, PYTHONPATH=wt, PYTHONHASHSEED='0')
        demo = os.path.join(d, 'demo.py')
        clean = subprocess.run(['/venv/bin/python', demo], capture_output=True, text=True, env=env, timeout=600, cwd='/tmp')
        ap = sh('git -C %s apply %s' % (wt, os.path.join(d, 'patch.diff')))
        tests = sh('cd %s && /venv/bin/python -m pytest -q -p no:cacheprovider collada 2>&1 | tail -1' % wt)
        changed = subprocess.run(['/venv/bin/python', demo], capture_output=True, text=True, env=env, timeout=600, cwd='/tmp')
        head = sh('git -C /repo rev-parse --short HEAD').stdout.strip()
        ok = clean.returncode == 0 and ap.returncode == 0 and ' failed' not in tests.stdout and 'passed' in tests.stdout and changed.returncode == 1
        conf = {'repo_head': head, 'demo_on_clean_exit': clean.returncode, 'patch_applies': ap.returncode == 0,
                'tests_with_change': tests.stdout.strip(), 'demo_on_changed_exit': changed.returncode, 'confirmed': ok}
        mp = os.path.join(d, 'meta.json')
        meta = json.load(open(mp))
        meta['confirmed_by_integrator'] = conf
        json.dump(meta, open(mp, 'w'), indent=1)
        print('%-12s %s %s' % (name, 'CONFIRMED' if ok else 'NOT-CONFIRMED', conf))
    finally:
        sh('git -C /repo worktree remove --force %s' % wt)
