# n4: module-level cache of loaded geometries keyed by id
import sys
p=sys.argv[1]+'/collada/geometry.py'; s=open(p).read()
old="""        geom = Geometry(collada, id, name, sourcebyid, _primitives, xmlnode=node, double_sided=double_sided)
        return geom
"""
assert s.count(old)==1
s=s.replace(old,"""        if id in _loaded:
            return _loaded[id]
        geom = Geometry(collada, id, name, sourcebyid, _primitives, xmlnode=node, double_sided=double_sided)
        _loaded[id] = geom
        return geom
""")
s=s.replace("class Geometry(DaeObject):","_loaded = {}\n\n\nclass Geometry(DaeObject):",1)
open(p,'w').write(s)
