# n6: mutable default arguments in Node.__init__
import sys
p=sys.argv[1]+'/collada/scene.py'; s=open(p).read()
old="    def __init__(self, id, children=None, transforms=None, xmlnode=None, name=None):"
assert s.count(old)==1
s=s.replace(old,"    def __init__(self, id, children=[], transforms=[], xmlnode=None, name=None):")
old2="""        self.children = []
        \"\"\"A list of child nodes of this node. This can contain any
          object that inherits from :class:`collada.scene.SceneNode`\"\"\"
        if children is not None:
            self.children = children
        self.transforms = []
        if transforms is not None:
            self.transforms = transforms
"""
assert s.count(old2)==1
s=s.replace(old2,"""        self.children = children
        self.transforms = transforms
""")
open(p,'w').write(s)
