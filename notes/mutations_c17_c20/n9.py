# n9: documents without <asset> share one module-level default Asset
import sys
p=sys.argv[1]+'/collada/__init__.py'; s=open(p).read()
old="""        else:
            self.assetInfo = asset.Asset()
"""
assert s.count(old)==1
s=s.replace(old,"""        else:
            global _default_asset
            if _default_asset is None:
                _default_asset = asset.Asset()
            self.assetInfo = _default_asset
""")
s=s.replace("class Collada(object):","_default_asset = None\n\n\nclass Collada(object):",1)
open(p,'w').write(s)
