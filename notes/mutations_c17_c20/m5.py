# M5: bound polylist normalises the source normals in place before transforming them
import sys
p=sys.argv[1]+'/collada/polylist.py'; s=open(p).read()
old="        self._normal = None if pl._normal is None else numpy.asarray(pl._normal * M[:3, :3])\n"
assert s.count(old)==1
s=s.replace(old,"        self._normal = None if pl._normal is None else numpy.asarray(normalize_v3(pl._normal) * M[:3, :3])\n")
s=s.replace("from collada.util import checkSource\n","from collada.util import checkSource, normalize_v3\n")
open(p,'w').write(s)
