# n2: errors is a class attribute
import sys
p=sys.argv[1]+'/collada/__init__.py'; s=open(p).read()
old="        self.errors = []\n"
assert s.count(old)==1
s=s.replace(old,"")
s=s.replace("    def _setIndexedList(self, propname, data):","    errors = []\n\n    def _setIndexedList(self, propname, data):")
open(p,'w').write(s)
