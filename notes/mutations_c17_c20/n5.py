# n5: loading registers the document's namespace as the default prefix for writing
import sys
p=sys.argv[1]+'/collada/__init__.py'; s=open(p).read()
old="            self.tag = tagger(namespace)\n"
assert s.count(old)==1
s=s.replace(old,old+"            if namespace:\n                ElementTree.register_namespace('', namespace)\n")
open(p,'w').write(s)
