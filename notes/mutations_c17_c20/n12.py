# n12: the document keeps the caller's ignore list itself
import sys
p=sys.argv[1]+'/collada/__init__.py'; s=open(p).read()
old="""        self.maskedErrors = []
        if ignore is not None:
            self.ignoreErrors(*ignore)
"""
assert s.count(old)==1
s=s.replace(old,"""        self.maskedErrors = ignore if ignore is not None else []
""")
open(p,'w').write(s)
