# n10: loading points the module-level element factory at the document's namespace
import sys
p=sys.argv[1]+'/collada/__init__.py'; s=open(p).read()
old="            self.tag = tagger(namespace)\n"
assert s.count(old)==1
s=s.replace(old,old+"            if namespace:\n                E._namespace = '{' + namespace + '}'\n")
open(p,'w').write(s)
