# n1: maskedErrors is a class attribute (never reset per instance)
import sys
p=sys.argv[1]+'/collada/__init__.py'; s=open(p).read()
old="        self.maskedErrors = []\n        if ignore"
assert s.count(old)==1
s=s.replace(old,"        if ignore")
s=s.replace("    def _setIndexedList(self, propname, data):","    maskedErrors = []\n\n    def _setIndexedList(self, propname, data):")
open(p,'w').write(s)
