# n7: errors are recorded on a module-level "document being loaded" (set and cleared by the constructor): only overlapping loads in threads show it
import sys
p=sys.argv[1]+'/collada/__init__.py'; s=open(p).read()
old="""    def handleError(self, error):
        self.errors.append(error)
"""
assert s.count(old)==1
s=s.replace(old,"""    def handleError(self, error):
        (_loading[0] or self).errors.append(error)
""")
old="""        # functions which will load various things into collada object
        self._loadAssetInfo()
"""
assert s.count(old)==1
s=s.replace(old,"""        # functions which will load various things into collada object
        _loading[0] = self
        try:
            self._loadEverything()
        finally:
            _loading[0] = None

    def _loadEverything(self):
        self._loadAssetInfo()
""")
s=s.replace("class Collada(object):","_loading = [None]\n\n\nclass Collada(object):",1)
open(p,'w').write(s)
