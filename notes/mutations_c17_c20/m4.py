# M4: getInputList drops the empty semantic lists from the primitive's sources while iterating
import sys
p=sys.argv[1]+'/collada/primitive.py'; s=open(p).read()
old="""        for (key, tupes) in self.sources.items():
            for (offset, semantic, source, set, srcobj) in tupes:
                inpl.addInput(offset, semantic, source, set)
"""
assert s.count(old)==1
s=s.replace(old,"""        for (key, tupes) in list(self.sources.items()):
            if not tupes:
                del self.sources[key]
            for (offset, semantic, source, set, srcobj) in tupes:
                inpl.addInput(offset, semantic, source, set)
""")
open(p,'w').write(s)
