# n8: Polylist triangulation cache is a class-level dict keyed by the primitive's material symbol and size
import sys
p=sys.argv[1]+'/collada/polylist.py'; s=open(p).read()
old="""    _triangleset = None

    def triangleset(self):
        \"\"\"This performs a simple triangulation of the polylist using the fanning method.

        :rtype: :class:`collada.triangleset.TriangleSet`
        \"\"\"

        if self._triangleset is None:"""
assert s.count(old)==1
s=s.replace(old,"""    _triangleset = None
    _tricache = {}

    def triangleset(self):
        \"\"\"This performs a simple triangulation of the polylist using the fanning method.

        :rtype: :class:`collada.triangleset.TriangleSet`
        \"\"\"
        key = (self.material, self.npolygons, int(self.nvertices))
        if self._triangleset is None and key in Polylist._tricache:
            self._triangleset = Polylist._tricache[key]
        if self._triangleset is None:""")
old2="            self._triangleset = triset\n        return self._triangleset\n\n    @staticmethod"
assert s.count(old2)==1
s=s.replace(old2,"            self._triangleset = triset\n            Polylist._tricache[key] = triset\n        return self._triangleset\n\n    @staticmethod")
open(p,'w').write(s)
