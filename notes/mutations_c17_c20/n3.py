# n3: the tagger of the document being loaded is kept at class level and instances delegate to it
import sys
p=sys.argv[1]+'/collada/__init__.py'; s=open(p).read()
old="            self.tag = tagger(namespace)\n"
assert s.count(old)==1
s=s.replace(old,"            Collada._tagger = staticmethod(tagger(namespace))\n            self.tag = lambda text: Collada._tagger(text)\n")
open(p,'w').write(s)
