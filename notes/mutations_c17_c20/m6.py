# M6: Node.objects stores the accumulated matrix on the node
import sys
p=sys.argv[1]+'/collada/scene.py'; s=open(p).read()
old="""        if matrix is not None:
            M = numpy.dot(matrix, self.matrix)
        else:
            M = self.matrix
        for node in self.children:"""
assert s.count(old)==1
s=s.replace(old,"""        if matrix is not None:
            M = self.matrix = numpy.dot(matrix, self.matrix)
        else:
            M = self.matrix
        for node in self.children:""")
open(p,'w').write(s)
