# M2: GeometryNode.objects memoises the bound geometry and BoundGeometry its bound primitives (cache handed to the caller)
import sys
p=sys.argv[1]+'/collada/scene.py'; s=open(p).read()
old="            yield self.geometry.bind(matrix, materialnodesbysymbol)\n"
assert s.count(old)==1
s=s.replace(old,"""            if getattr(self, '_bound', None) is None:
                self._bound = self.geometry.bind(matrix, materialnodesbysymbol)
            yield self._bound
""")
open(p,'w').write(s)
p=sys.argv[1]+'/collada/geometry.py'; s=open(p).read()
old="""        for p in self._primitives:
            boundp = p.bind(self.matrix, self.materialnodebysymbol)
            yield boundp
"""
assert s.count(old)==1
s=s.replace(old,"""        if getattr(self, '_boundprims', None) is None:
            self._boundprims = [p.bind(self.matrix, self.materialnodebysymbol) for p in self._primitives]
        for boundp in self._boundprims:
            yield boundp
""")
open(p,'w').write(s)
