# M1: a query sorts shared index data in place (Polylist.__getitem__ on the view of index)
import sys,re
p=sys.argv[1]+'/collada/polylist.py'; s=open(p).read()
old="""    def __getitem__(self, i):
        polyrange = self.polyindex[i]
        vertindex = self._vertex_index[polyrange[0]:polyrange[1]]
        v = self._vertex[vertindex]

        normalindex = None
        if self.normal is None:
            n = None
        else:
            normalindex = self._normal_index[polyrange[0]:polyrange[1]]
            n = self._normal[normalindex]

        uvindices = []
        uv = []
        for j, uvindex in enumerate(self._texcoord_indexset):
            uvindices.append(uvindex[polyrange[0]:polyrange[1]])
            uv.append(self._texcoordset[j][uvindex[polyrange[0]:polyrange[1]]])

        return Polygon(vertindex, v, normalindex, n, uvindices, uv, self.material)

    _triangleset = None

    def triangleset(self):
        \"\"\"This performs a simple triangulation of the polylist using the fanning method.

        :rtype: :class:`collada.triangleset.BoundTriangleSet`"""
assert s.count(old)==1
s=s.replace(old, old.replace("        v = self._vertex[vertindex]\n","        vertindex.sort()\n        v = self._vertex[vertindex]\n",1))
open(p,'w').write(s)
