# M3: bound triangle set shares the vertex buffer when the transform is the identity
import sys
p=sys.argv[1]+'/collada/triangleset.py'; s=open(p).read()
old="        self._vertex = None if ts.vertex is None else numpy.asarray(ts._vertex * M[:3, :3]) + matrix[:3, 3]\n"
assert s.count(old)==1
s=s.replace(old,"""        if ts.vertex is not None and numpy.array_equal(matrix, numpy.identity(4)):
            self._vertex = ts._vertex
        else:
            self._vertex = None if ts.vertex is None else numpy.asarray(ts._vertex * M[:3, :3]) + matrix[:3, 3]
""")
open(p,'w').write(s)
