# n11: FloatSource.load caches parsed arrays by their text at module level
import sys
p=sys.argv[1]+'/collada/source.py'; s=open(p).read()
old="""            try:
                data = numpy.fromstring(arraynode.text, dtype=numpy.float32, sep=' ')
            except ValueError:
                raise DaeMalformedError('Corrupted float array')
"""
assert s.count(old)==1, s.count(old)
s=s.replace(old,"""            if arraynode.text in _parsed:
                data = _parsed[arraynode.text]
            else:
                try:
                    data = numpy.fromstring(arraynode.text, dtype=numpy.float32, sep=' ')
                except ValueError:
                    raise DaeMalformedError('Corrupted float array')
                _parsed[arraynode.text] = data
""")
s=s.replace("class InputList(object):","_parsed = {}\n\n\nclass InputList(object):",1)
open(p,'w').write(s)
