#!/bin/bash
# usage: run.sh PROP m1 m2 ...   (mutants applied to /tmp/wt_c17m one at a time)
# needs two scratch worktrees of /repo: /tmp/wt_c17m (mutated) and /tmp/wt_c17dev (clean): git -C /repo worktree add --detach <path> HEAD
PROP=$1; shift
export VERIF_JOBS=6
for m in "$@"; do
  git -C /tmp/wt_c17m checkout -q -- . ; git -C /tmp/wt_c17m clean -fdq
  /venv/bin/python $(dirname "$0")/$m.py /tmp/wt_c17m || { echo "$m: patch failed"; continue; }
  ( cd /tmp/wt_c17m && timeout 300 /venv/bin/python -m pytest -q -p no:cacheprovider --timeout=900 2>&1 | tail -1 )
  rm -f /verif/replays/$PROP-quick-*.json
  ( cd /verif && VERIF_REPO=/tmp/wt_c17m ./check $PROP quick > /tmp/mut_$m.$PROP.log 2>&1; echo "$m: exit $?" )
  grep -c VIOLATION /tmp/mut_$m.$PROP.log; tail -1 /tmp/mut_$m.$PROP.log
  r=$(ls /verif/replays/$PROP-quick-*-0.json 2>/dev/null | head -1)
  if [ -n "$r" ]; then
    /venv/bin/python -c "import json;b=json.load(open('$r'));print('  sig', b.get('signature'), b.get('kind'))"
    ( cd /verif && VERIF_REPO=/tmp/wt_c17m ./check $PROP --replay $r >/dev/null 2>&1; echo "  replay on mutant: $?" )
    ( cd /verif && VERIF_REPO=/tmp/wt_c17dev ./check $PROP --replay $r >/dev/null 2>&1; echo "  replay on clean: $?" )
  fi
done
git -C /tmp/wt_c17m checkout -q -- . ; rm -f /verif/replays/$PROP-quick-*.json
