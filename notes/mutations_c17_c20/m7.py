# M7: triangleset() hands the polylist's own index array to the TriangleSet constructor when every polygon is a triangle (the constructor reshapes it in place)
import sys
p=sys.argv[1]+'/collada/polylist.py'; s=open(p).read()
old="            triset = triangleset.TriangleSet(self.sources, self.material, triindex, self.xmlnode)\n"
assert s.count(old)==1
s=s.replace(old,"""            if len(self.index) > 0 and numpy.all(self.vcounts == 3):
                triindex = self.index
            triset = triangleset.TriangleSet(self.sources, self.material, triindex, self.xmlnode)
""")
open(p,'w').write(s)
